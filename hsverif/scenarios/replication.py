"""replication family: PrimaryNode/BackupNode, ChainNode (+CRAQ), LeaderNode (multi-leader).

Every node talks through a `Network` whose links have non-zero latency and
jitter (and, per builder, loss / a partition that heals).  Clients are harness
`Proc`s started at the arrival instants: bursts of writes on the same key at
the same nanosecond, reads racing the writes, each client parked on the
`reply_future` of its operation.
"""

from __future__ import annotations

import random

from happysimulator.components.datastore.kv_store import KVStore
from happysimulator.components.network import Network, NetworkLink
from happysimulator.components.replication.chain_replication import ChainNode, ChainNodeRole, build_chain
from happysimulator.components.replication.conflict_resolver import (
    CustomResolver,
    LastWriterWins,
    VectorClockMerge,
    VersionedValue,
)
from happysimulator.components.replication.multi_leader import LeaderNode
from happysimulator.components.replication.primary_backup import BackupNode, PrimaryNode, ReplicationMode
from happysimulator.core.sim_future import SimFuture

from hsverif.scenarios import Scenario, scenario
from hsverif.scenarios._kit import ConstantLatency, Event, ExponentialLatency, P, Proc, ev, make_sim

KEYS = ["k0", "k1", "k2"]


def _period(v: float, floor: float) -> float:
    """Bring a hostile latency into [floor, 2*floor): powers of ten up, then halvings.

    Periodic timers keep an awkward (non-representable) value but a run has a bounded
    number of ticks whatever the drawn latency and `end` are.
    """
    while v < floor:
        v *= 10.0
    while v / 2.0 >= floor:
        v /= 2.0
    return v


def _below(v: float, ceil: float) -> float:
    """Divide by ten until <= ceil (never below one nanosecond)."""
    while v > ceil:
        v /= 10.0
    return max(v, 1e-9)


def _proportion(p, end, mode):
    """(link latency fn, store latency fn) for sibling parameters out of proportion.

    mode None: drawn latencies as they are.  'slow_store': store latency >> link latency.
    'fast_store': store latency << link latency.  Values keep the drawn mantissa (powers of ten).
    """
    if mode is None:
        return (lambda k: p.lat(k)), (lambda k: p.lat(k))
    big = lambda k: _period(p.lat(k), end / 80.0)
    small = lambda k: _below(p.lat(k), end / 80.0 / 500.0)
    return (small, big) if mode == "slow_store" else (big, small)


def _mesh(net, nodes, p, k0=0, loss=0.0, bw=10_000_019.0, lat_fn=None, jitter=True):
    k = k0
    links = []
    lat_fn = lat_fn or (lambda j: p.lat(j))
    for i, a in enumerate(nodes):
        for b in nodes[i + 1 :]:
            link = NetworkLink(
                name=f"l_{a.name}_{b.name}",
                latency=ConstantLatency(lat_fn(k)),
                jitter=ExponentialLatency(lat_fn(k + 1)) if jitter else None,
                bandwidth_bps=bw,
                packet_loss_rate=loss,
            )
            net.add_bidirectional_link(a, b, link)
            links.append(link)
            k += 1
    return links


def _store(name, p, i, lat_fn=None):
    lat_fn = lat_fn or (lambda j: p.lat(j))
    return KVStore(name, read_latency=lat_fn(i), write_latency=lat_fn(i + 1))


def _client(name, plan):
    """`plan(i) -> (target, 'Write'|'Read', key)`; the client parks on the reply future."""

    def body(proc, event):
        i = event.context["metadata"]["worker"]
        target, op, key = plan(i)
        fut = SimFuture()
        md = {"key": key, "value": f"{proc.name}:{i}", "reply_future": fut}
        yield 0.0, [Event(time=proc.now, event_type=op, target=target, context={"metadata": md})]
        r = yield fut
        proc.log.append((i, op, key, (r or {}).get("status")))
        proc.done += 1

    return Proc(name, body)


def _partition_proc(net, group_a, group_b, start_s, dur_s, asymmetric=False):
    def body(proc, event):
        yield start_s
        part = net.partition(group_a, group_b, asymmetric=asymmetric)
        proc.log.append(("cut", proc.now.nanoseconds))
        yield dur_s
        part.heal()
        proc.log.append(("heal", proc.now.nanoseconds))
        proc.done += 1

    return Proc("partitioner", body)


# ----------------------------------------------------------------------
# primary / backup


def _primary_backup(mode, default_loss: float, with_partition: bool, n_default: int = 2, proportion=None, same_link=False):
    """`mode` None: taken from x.v.  Backups = count(0) (1..12), clients = count(1) (1..5).
    `same_link`: every primary->backup link has the same latency and no jitter (fan-out of n
    replication messages that land on one nanosecond, acks come back on one nanosecond)."""

    def build(seed, params):
        p = P(params, seed)
        rng = random.Random(seed)
        end = p.end()
        the_mode = mode or list(ReplicationMode)[int(p.x("v", seed)) % 3]
        n_b = p.count(0, n_default, lo=2 if with_partition else 1, hi=12)
        n_c = p.count(1, 3, lo=1, hi=5)
        link_lat, store_lat = _proportion(p, end, proportion)
        net = Network(name="net")
        backups: list = []
        ps = _store("primary_store", p, 0, store_lat)
        primary = PrimaryNode("primary", store=ps, backups=backups, network=net, mode=the_mode)
        bstores = [_store(f"backup{i}_store", p, 0 if same_link else 2 + i, store_lat) for i in range(n_b)]
        # the list handed to the primary is filled after construction (backups need the primary)
        for i in range(n_b):
            reads = True if i != 1 else bool(p.x("b1_reads", True))
            backups.append(BackupNode(f"backup{i}", store=bstores[i], network=net, primary=primary, serve_reads=reads))
        if same_link:
            for b in backups:
                net.add_bidirectional_link(primary, b, NetworkLink(name=f"l_{b.name}", latency=ConstantLatency(link_lat(2))))
        else:
            _mesh(net, [primary, *backups], p, k0=4, loss=float(p.x("loss", default_loss)), lat_fn=link_lat)
        arr = p.arrivals(12)

        def plan(i):
            r = i % 4
            key = KEYS[(i // 4) % len(KEYS)] if rng.random() < 0.5 else KEYS[0]
            if i % 9 == 8:
                key = "never_written"
            if r == 3:
                return (backups[i % n_b], "Read", key)
            if r == 2 or key == "never_written":
                return (primary, "Read", key)
            return (primary, "Write", key)

        clients = [_client(f"cli{i}", plan) for i in range(n_c)]
        ents = [net, primary, *backups, ps, *bstores, *clients]
        comps = {"primary": primary, "net": net, **{b.name: b for b in backups}}
        if with_partition:
            pp = _partition_proc(net, [primary], [backups[1]], link_lat(0) * 0.5, link_lat(4) + link_lat(5) + p.hold())
            ents.append(pp)
            comps["partitioner"] = pp
        sim = make_sim(ents, end)
        for i, t in enumerate(arr):
            sim.schedule(ev(t, "start", clients[i % n_c], worker=i))
        # reads of a key nobody ever wrote, on every replica
        for b in [primary, *backups]:
            sim.schedule(ev(max(arr), "Read", b, key="never_written"))
        if with_partition:
            sim.schedule(ev(min(arr), "start", pp))
        # an unknown event type and a stray ack are tolerated by the handlers
        sim.schedule(ev(max(arr), "ReplicationAck", primary, source="backup0", seq=0))
        return Scenario(sim, comps, "replication", True, len(arr) + 1)

    return build


scenario("replication.primary_backup_async", "replication")(_primary_backup(ReplicationMode.ASYNC, 0.1, False))
scenario("replication.primary_backup_semi_sync", "replication")(_primary_backup(ReplicationMode.SEMI_SYNC, 0.05, False))
scenario("replication.primary_backup_sync", "replication")(_primary_backup(ReplicationMode.SYNC, 0.0, False))
scenario("replication.primary_backup_sync_partition", "replication")(_primary_backup(ReplicationMode.SYNC, 0.02, True))
# wide: many backups on identical links (fan-out / fan-in on one nanosecond), store latency out of proportion
scenario("replication.primary_fanout_same_links", "replication")(_primary_backup(None, 0.0, False, n_default=9, same_link=True))
scenario("replication.primary_backup_slow_store", "replication")(_primary_backup(None, 0.0, False, n_default=3, proportion="slow_store"))
scenario("replication.primary_backup_fast_store", "replication")(_primary_backup(None, 0.02, False, n_default=3, proportion="fast_store"))


@scenario("replication.primary_single_backup_modes", "replication")
def primary_single_backup(seed, params):
    """One backup only (the `len(ack_futures) == 1` branches of SEMI_SYNC and SYNC); mode from x.v."""
    p = P(params, seed)
    mode = [ReplicationMode.SEMI_SYNC, ReplicationMode.SYNC][int(p.x("v", seed)) % 2]
    net = Network(name="net")
    backups: list = []
    ps, bs = _store("ps", p, 0), _store("bs", p, 2)
    primary = PrimaryNode("primary", store=ps, backups=backups, network=net, mode=mode)
    backups.append(BackupNode("backup", store=bs, network=net, primary=primary))
    _mesh(net, [primary, backups[0]], p, k0=4)
    arr = p.arrivals(8)
    plan = lambda i: (primary, "Write", KEYS[0]) if i % 3 else (backups[0], "Read", KEYS[0])
    clients = [_client(f"cli{i}", plan) for i in range(2)]
    sim = make_sim([net, primary, backups[0], ps, bs, *clients], p.end())
    for i, t in enumerate(arr):
        sim.schedule(ev(t, "start", clients[i % 2], worker=i))
    return Scenario(sim, {"primary": primary, "backup": backups[0]}, "replication", True, len(arr))


# ----------------------------------------------------------------------
# chain replication


def _chain(craq: bool, n_default: int, default_loss: float, proportion=None, same=False):
    """Chain length = count(0) (2..12).  `same`: every store and every link has the same latency
    (no jitter), so the commit time is a sum of n identical terms."""

    def build(seed, params):
        p = P(params, seed)
        rng = random.Random(seed)
        end = p.end()
        n_nodes = p.count(0, n_default, lo=2, hi=12)
        link_lat, store_lat = _proportion(p, end, proportion)
        net = Network(name="net")
        stores = []

        def mk_store(name):
            s = _store(name, p, 0 if same else len(stores), store_lat)
            stores.append(s)
            return s

        nodes = build_chain([f"n{i}" for i in range(n_nodes)], net, mk_store, craq_enabled=craq)
        if same:
            _mesh(net, nodes, p, k0=2, lat_fn=lambda k: link_lat(2), jitter=False, bw=None)
        else:
            _mesh(net, nodes, p, k0=3, loss=float(p.x("loss", default_loss)), lat_fn=link_lat)
        head, tail = nodes[0], nodes[-1]
        arr = p.arrivals(12)

        def plan(i):
            r = i % 5
            key = KEYS[0] if rng.random() < 0.6 else KEYS[1 + i % 2]
            if r == 4:
                return (nodes[1], "Write", key)  # write to a non-head node: error reply
            if i % 11 == 10:
                return (nodes[i % n_nodes], "Read", "never_written")
            if r == 3:
                return (nodes[i % n_nodes], "Read", key)  # read racing the write (dirty key under CRAQ)
            if r == 2:
                return (tail, "Read", key)
            return (head, "Write", key)

        clients = [_client(f"cli{i}", plan) for i in range(3)]
        sim = make_sim([net, *nodes, *stores, *clients], end)
        for i, t in enumerate(arr):
            sim.schedule(ev(t, "start", clients[i % 3], worker=i))
        # second wave of reads a positive time later: keys are dirty on head/middle while the ack travels
        t_late = min(arr) + int(store_lat(0) * 1e9) + 1
        for j in range(3):
            sim.schedule(ev(t_late, "Read", nodes[j % (n_nodes - 1)], key=KEYS[0]))
        for nd in nodes:  # a key nobody wrote, on every node
            sim.schedule(ev(max(arr), "Read", nd, key="never_written"))
        comps = {n.name: n for n in nodes}
        comps["net"] = net
        return Scenario(sim, comps, "replication", True, len(arr) + 3)

    return build


scenario("replication.chain_three", "replication")(_chain(False, 3, 0.0))
scenario("replication.chain_four_lossy", "replication")(_chain(False, 4, 0.05))
scenario("replication.chain_craq", "replication")(_chain(True, 4, 0.0))
scenario("replication.chain_craq_lossy", "replication")(_chain(True, 3, 0.05))
# wide: long chains of identical hops, store latency out of proportion with the links
scenario("replication.chain_long_same_hops", "replication")(_chain(False, 9, 0.0, same=True))
scenario("replication.chain_craq_long_same_hops", "replication")(_chain(True, 10, 0.0, same=True))
scenario("replication.chain_slow_store", "replication")(_chain(True, 3, 0.0, proportion="slow_store"))
scenario("replication.chain_fast_store", "replication")(_chain(False, 5, 0.02, proportion="fast_store"))


@scenario("replication.chain_manual_two", "replication")
def chain_manual_two(seed, params):
    """Hand-wired 2-node chain without `head_node` (tail acks to `prev_node`) and a lone HEAD."""
    p = P(params, seed)
    net = Network(name="net")
    s0, s1, s2 = _store("s0", p, 0), _store("s1", p, 2), _store("s2", p, 4)
    head = ChainNode("head", store=s0, network=net, role=ChainNodeRole.HEAD, craq_enabled=True)
    tail = ChainNode("tail", store=s1, network=net, role=ChainNodeRole.TAIL, craq_enabled=True)
    head.next_node, tail.prev_node = tail, head
    lone = ChainNode("lone", store=s2, network=net, role=ChainNodeRole.HEAD, craq_enabled=True)
    # single-node "chains": a HEAD without successor (head and tail at once), a TAIL without
    # predecessor (a Propagate has nobody to acknowledge to), a MIDDLE without neighbours
    s3, s4 = _store("s3", p, 1), _store("s4", p, 3)
    lone_tail = ChainNode("lone_tail", store=s3, network=net, role=ChainNodeRole.TAIL, craq_enabled=bool(int(p.x("v", seed)) % 2))
    lone_mid = ChainNode("lone_mid", store=s4, network=net, role=ChainNodeRole.MIDDLE)
    _mesh(net, [head, tail], p, k0=5)
    arr = p.arrivals(8)
    ops = [
        (head, "Write", "k"),
        (lone, "Write", "k"),
        (head, "Read", "k"),
        (lone, "Read", "k"),
        (lone_tail, "Write", "k"),  # not a head: error reply
        (lone_tail, "Read", "never_written"),
        (lone_mid, "Read", "k"),
        (lone, "Read", "never_written"),
    ]
    plan = lambda i: ops[i % len(ops)]
    clients = [_client(f"cli{i}", plan) for i in range(2)]
    sim = make_sim([net, head, tail, lone, lone_tail, lone_mid, s0, s1, s2, s3, s4, *clients], p.end())
    for i, t in enumerate(arr):
        sim.schedule(ev(t, "start", clients[i % 2], worker=i))
    for j, nd in enumerate([lone_tail, lone_mid]):
        sim.schedule(ev(min(arr), "Propagate", nd, key="k", value=j, seq=1))
        sim.schedule(ev(min(arr), "WriteAck", nd, key="k", seq=99))  # ack for a write nobody is waiting on
        sim.schedule(ev(min(arr), "CommitNotify", nd, key="k", seq=1))
    return Scenario(
        sim, {"head": head, "tail": tail, "lone": lone, "lone_tail": lone_tail, "lone_mid": lone_mid}, "replication", True, len(arr) + 6
    )


# ----------------------------------------------------------------------
# multi-leader


def _merge_concat(key, a: VersionedValue, b: VersionedValue) -> VersionedValue:
    lo, hi = sorted([a, b], key=lambda v: (v.timestamp, v.writer_id))
    vc = dict(lo.vector_clock or {})
    for k, n in (hi.vector_clock or {}).items():
        vc[k] = max(vc.get(k, 0), n)
    return VersionedValue(value=f"{lo.value}+{hi.value}"[:200], timestamp=hi.timestamp, writer_id=hi.writer_id, vector_clock=vc)


def _pick_min(key, versions):
    return min(versions, key=lambda v: (str(v.value), v.writer_id))


_RESOLVERS = {
    "lww": lambda: LastWriterWins(),
    "vc_merge": lambda: VectorClockMerge(_merge_concat),
    "vc_default": lambda: VectorClockMerge(),
    "custom": lambda: CustomResolver(_pick_min),
}


def _multi_leader(resolver: str, n_default: int, default_loss: float, with_partition: bool, proportion=None, same_links=False):
    """Leaders = count(0) (1..12; a partition needs 2).  proportion 'ae_fast': anti-entropy interval
    << link latency (several rounds in flight at once); 'ae_slow': interval >> link latency."""

    def build(seed, params):
        p = P(params, seed)
        rng = random.Random(seed)
        end = p.end()
        n = p.count(0, n_default, lo=2 if with_partition else 1, hi=5 if proportion == "ae_fast" else 12)
        net = Network(name="net")
        stores = [_store(f"ls{i}", p, 2 * i) for i in range(n)]
        link_lat = None
        if proportion == "ae_fast":
            ae = [_period(p.lat(6 + i), end / 400.0) for i in range(n)]
            link_lat = lambda k: _period(p.lat(k), end / 10.0)
        elif proportion == "ae_slow":
            ae = [_period(p.lat(6 + i), end / 6.0) for i in range(n)]
            link_lat = lambda k: _below(p.lat(k), end / 6.0 / 2000.0)
        else:
            # x.raw_intervals: use the drawn latencies unscaled
            ae = [p.lat(6 + i) if p.x("raw_intervals", False) else _period(p.lat(6 + i), end / 150.0) for i in range(n)]
        leaders = [
            LeaderNode(f"leader{i}", store=stores[i], network=net, conflict_resolver=_RESOLVERS[resolver](), anti_entropy_interval=ae[i])
            for i in range(n)
        ]
        for ld in leaders:
            ld.add_peers([o for o in leaders if o is not ld])
        if same_links:
            # identical links without jitter: the n-1 replication messages of a write land on one nanosecond
            _mesh(net, leaders, p, k0=1, lat_fn=lambda k: p.lat(1), jitter=False, bw=None)
        else:
            _mesh(net, leaders, p, k0=1, loss=float(p.x("loss", default_loss)), lat_fn=link_lat)
        arr = p.arrivals(12)

        def plan(i):
            # same key, same nanosecond, different leaders => concurrent versions
            key = KEYS[0] if rng.random() < 0.7 else KEYS[1]
            if i % 10 == 9:
                return (leaders[i % n], "Read", "never_written")
            if i >= 1000:  # writes issued on both sides of the partition
                return (leaders[(i - 1000) % n], "Write", KEYS[0])
            if i % 4 == 3:
                return (leaders[i % n], "Read", key)
            return (leaders[i % n], "Write", key)

        clients = [_client(f"cli{i}", plan) for i in range(3)]

        def late_start(proc, event):
            # the documented start-up idiom, used at a positive time: the event is stamped `now`
            e = leaders[-1].get_anti_entropy_event()
            proc.done += 1
            return [e] if e is not None else None

        starter = Proc("ae_starter", late_start)
        ents = [net, *leaders, *stores, *clients, starter]
        comps = {ld.name: ld for ld in leaders}
        comps["net"] = net
        if with_partition:
            pp = _partition_proc(net, [leaders[0]], leaders[1:], p.lat(0) * 0.5, max(ae) * 2.5)
            ents.append(pp)
            comps["partitioner"] = pp
        sim = make_sim(ents, end)
        for ld in leaders[:-1]:
            e = ld.get_anti_entropy_event()  # at t=0: first tick one interval later
            if e is not None:
                sim.schedule(e)
        sim.schedule(ev(min(arr), "start", starter))
        for i, t in enumerate(arr):
            sim.schedule(ev(t, "start", clients[i % 3], worker=i))
        if with_partition:
            sim.schedule(ev(min(arr), "start", pp))
            # writes on both sides during the partition
            t_mid = min(arr) + int((p.lat(0) * 0.5 + max(ae)) * 1e9)
            for j in range(n):
                sim.schedule(ev(t_mid, "start", clients[j % 3], worker=1000 + j))
        return Scenario(sim, comps, "replication", True, len(arr) + 1 + (n if with_partition else 0))

    return build


scenario("replication.multi_leader_lww", "replication")(_multi_leader("lww", 3, 0.05, False))
scenario("replication.multi_leader_vc_merge", "replication")(_multi_leader("vc_merge", 3, 0.0, False))
scenario("replication.multi_leader_vc_default", "replication")(_multi_leader("vc_default", 2, 0.1, False))
scenario("replication.multi_leader_custom_partition", "replication")(_multi_leader("custom", 3, 0.02, True))
scenario("replication.multi_leader_lww_partition", "replication")(_multi_leader("lww", 4, 0.0, True))
# wide: many leaders, anti-entropy interval out of proportion with the link latency
scenario("replication.multi_leader_many", "replication")(_multi_leader("lww", 10, 0.0, False))
scenario("replication.multi_leader_many_same_links", "replication")(_multi_leader("vc_merge", 9, 0.0, False, same_links=True))
scenario("replication.multi_leader_ae_faster_than_links", "replication")(_multi_leader("vc_default", 3, 0.0, False, proportion="ae_fast"))
scenario("replication.multi_leader_ae_slower_than_links", "replication")(_multi_leader("lww", 3, 0.02, False, proportion="ae_slow"))


@scenario("replication.anti_entropy_one_ns_interval", "replication")
def anti_entropy_one_ns(seed, params):
    """anti_entropy_interval of exactly one nanosecond (x.tick) over a 3 microsecond horizon.

    A correct periodic timer makes ~3000 ticks and stops at the horizon; the horizon (not
    `p.end()`) bounds the work so that the smallest representable interval can be used unscaled.
    """
    p = P(params, seed)
    tick = float(p.x("tick", 1e-9))
    net = Network(name="net")
    sa, sb = _store("lsa", p, 0), _store("lsb", p, 2)
    a = LeaderNode("la", store=sa, network=net, conflict_resolver=LastWriterWins(), anti_entropy_interval=tick)
    b = LeaderNode("lb", store=sb, network=net, conflict_resolver=LastWriterWins(), anti_entropy_interval=_period(p.lat(4), 2e-7))
    a.add_peers([b])
    b.add_peers([a])
    _mesh(net, [a, b], p, k0=5)
    arr = p.arrivals(4)
    t0 = min(arr)
    horizon_ns = t0 + 3_000

    def start(proc, event):
        proc.done += 1
        return [e for e in (a.get_anti_entropy_event(), b.get_anti_entropy_event()) if e is not None]

    starter = Proc("ae_starter", start)
    plan = lambda i: ((a, b)[i % 2], "Write", KEYS[0])
    clients = [_client(f"cli{i}", plan) for i in range(2)]
    sim = make_sim([net, a, b, sa, sb, starter, *clients], (horizon_ns + 1) / 1e9)
    sim.schedule(ev(t0, "start", starter))
    for i, t in enumerate(arr):
        sim.schedule(ev(t, "start", clients[i % 2], worker=i))
    return Scenario(sim, {"la": a, "lb": b}, "replication", True, len(arr) + 1)

"""replication family: PrimaryNode/BackupNode, ChainNode (+CRAQ), LeaderNode (multi-leader).

Every node talks through a `Network` whose links have non-zero latency and
jitter (and, per builder, loss / a partition that heals).  Clients are harness
`Proc`s started at the arrival instants: bursts of writes on the same key at
the same nanosecond, reads racing the writes, each client parked on the
`reply_future` of its operation.
"""

from __future__ import annotations

import random

from happysimulator.components.datastore.kv_store import KVStore
from happysimulator.components.network import Network, NetworkLink
from happysimulator.components.replication.chain_replication import ChainNode, ChainNodeRole, build_chain
from happysimulator.components.replication.conflict_resolver import (
    CustomResolver,
    LastWriterWins,
    VectorClockMerge,
    VersionedValue,
)
from happysimulator.components.replication.multi_leader import LeaderNode
from happysimulator.components.replication.primary_backup import BackupNode, PrimaryNode, ReplicationMode
from happysimulator.core.sim_future import SimFuture

from hsverif.scenarios import Scenario, scenario
from hsverif.scenarios._kit import ConstantLatency, Event, ExponentialLatency, P, Proc, ev, make_sim

KEYS = ["k0", "k1", "k2"]


def _period(v: float, floor: float) -> float:
    """Bring a hostile latency into [floor, 2*floor): powers of ten up, then halvings.

    Periodic timers keep an awkward (non-representable) value but a run has a bounded
    number of ticks whatever the drawn latency and `end` are.
    """
    while v < floor:
        v *= 10.0
    while v / 2.0 >= floor:
        v /= 2.0
    return v


def _mesh(net, nodes, p, k0=0, loss=0.0, bw=10_000_019.0):
    k = k0
    links = []
    for i, a in enumerate(nodes):
        for b in nodes[i + 1 :]:
            link = NetworkLink(
                name=f"l_{a.name}_{b.name}",
                latency=ConstantLatency(p.lat(k)),
                jitter=ExponentialLatency(p.lat(k + 1)),
                bandwidth_bps=bw,
                packet_loss_rate=loss,
            )
            net.add_bidirectional_link(a, b, link)
            links.append(link)
            k += 1
    return links


def _store(name, p, i):
    return KVStore(name, read_latency=p.lat(i), write_latency=p.lat(i + 1))


def _client(name, plan):
    """`plan(i) -> (target, 'Write'|'Read', key)`; the client parks on the reply future."""

    def body(proc, event):
        i = event.context["metadata"]["worker"]
        target, op, key = plan(i)
        fut = SimFuture()
        md = {"key": key, "value": f"{proc.name}:{i}", "reply_future": fut}
        yield 0.0, [Event(time=proc.now, event_type=op, target=target, context={"metadata": md})]
        r = yield fut
        proc.log.append((i, op, key, (r or {}).get("status")))
        proc.done += 1

    return Proc(name, body)


def _partition_proc(net, group_a, group_b, start_s, dur_s, asymmetric=False):
    def body(proc, event):
        yield start_s
        part = net.partition(group_a, group_b, asymmetric=asymmetric)
        proc.log.append(("cut", proc.now.nanoseconds))
        yield dur_s
        part.heal()
        proc.log.append(("heal", proc.now.nanoseconds))
        proc.done += 1

    return Proc("partitioner", body)


# ----------------------------------------------------------------------
# primary / backup


def _primary_backup(mode: ReplicationMode, default_loss: float, with_partition: bool):
    def build(seed, params):
        p = P(params, seed)
        rng = random.Random(seed)
        net = Network(name="net")
        backups: list = []
        ps = _store("primary_store", p, 0)
        primary = PrimaryNode("primary", store=ps, backups=backups, network=net, mode=mode)
        bstores = [_store(f"backup{i}_store", p, 2 + i) for i in range(2)]
        # the list handed to the primary is filled after construction (backups need the primary)
        backups.append(BackupNode("backup0", store=bstores[0], network=net, primary=primary, serve_reads=True))
        backups.append(BackupNode("backup1", store=bstores[1], network=net, primary=primary, serve_reads=bool(p.x("b1_reads", True))))
        _mesh(net, [primary, *backups], p, k0=4, loss=float(p.x("loss", default_loss)))
        arr = p.arrivals(12)

        def plan(i):
            r = i % 4
            key = KEYS[(i // 4) % len(KEYS)] if rng.random() < 0.5 else KEYS[0]
            if r == 3:
                return (backups[i % 2], "Read", key)
            if r == 2:
                return (primary, "Read", key)
            return (primary, "Write", key)

        clients = [_client(f"cli{i}", plan) for i in range(3)]
        ents = [net, primary, *backups, ps, *bstores, *clients]
        comps = {"primary": primary, "backup0": backups[0], "backup1": backups[1], "net": net}
        if with_partition:
            pp = _partition_proc(net, [primary], [backups[1]], p.lat(0) * 0.5, p.lat(4) + p.lat(5) + p.hold())
            ents.append(pp)
            comps["partitioner"] = pp
        sim = make_sim(ents, p.end())
        for i, t in enumerate(arr):
            sim.schedule(ev(t, "start", clients[i % 3], worker=i))
        if with_partition:
            sim.schedule(ev(min(arr), "start", pp))
        # an unknown event type and a stray ack are tolerated by the handlers
        sim.schedule(ev(max(arr), "ReplicationAck", primary, source="backup0", seq=0))
        return Scenario(sim, comps, "replication", True, len(arr) + 1)

    return build


scenario("replication.primary_backup_async", "replication")(_primary_backup(ReplicationMode.ASYNC, 0.1, False))
scenario("replication.primary_backup_semi_sync", "replication")(_primary_backup(ReplicationMode.SEMI_SYNC, 0.05, False))
scenario("replication.primary_backup_sync", "replication")(_primary_backup(ReplicationMode.SYNC, 0.0, False))
scenario("replication.primary_backup_sync_partition", "replication")(_primary_backup(ReplicationMode.SYNC, 0.02, True))


@scenario("replication.primary_single_backup_modes", "replication")
def primary_single_backup(seed, params):
    """One backup only (the `len(ack_futures) == 1` branches of SEMI_SYNC and SYNC); mode from x.v."""
    p = P(params, seed)
    mode = [ReplicationMode.SEMI_SYNC, ReplicationMode.SYNC][int(p.x("v", seed)) % 2]
    net = Network(name="net")
    backups: list = []
    ps, bs = _store("ps", p, 0), _store("bs", p, 2)
    primary = PrimaryNode("primary", store=ps, backups=backups, network=net, mode=mode)
    backups.append(BackupNode("backup", store=bs, network=net, primary=primary))
    _mesh(net, [primary, backups[0]], p, k0=4)
    arr = p.arrivals(8)
    plan = lambda i: (primary, "Write", KEYS[0]) if i % 3 else (backups[0], "Read", KEYS[0])
    clients = [_client(f"cli{i}", plan) for i in range(2)]
    sim = make_sim([net, primary, backups[0], ps, bs, *clients], p.end())
    for i, t in enumerate(arr):
        sim.schedule(ev(t, "start", clients[i % 2], worker=i))
    return Scenario(sim, {"primary": primary, "backup": backups[0]}, "replication", True, len(arr))


# ----------------------------------------------------------------------
# chain replication


def _chain(craq: bool, n_nodes: int, default_loss: float):
    def build(seed, params):
        p = P(params, seed)
        rng = random.Random(seed)
        net = Network(name="net")
        stores = []

        def mk_store(name):
            s = _store(name, p, len(stores))
            stores.append(s)
            return s

        nodes = build_chain([f"n{i}" for i in range(n_nodes)], net, mk_store, craq_enabled=craq)
        _mesh(net, nodes, p, k0=3, loss=float(p.x("loss", default_loss)))
        head, tail = nodes[0], nodes[-1]
        arr = p.arrivals(12)

        def plan(i):
            r = i % 5
            key = KEYS[0] if rng.random() < 0.6 else KEYS[1 + i % 2]
            if r == 4:
                return (nodes[1], "Write", key)  # write to a non-head node: error reply
            if r == 3:
                return (nodes[i % n_nodes], "Read", key)  # read racing the write (dirty key under CRAQ)
            if r == 2:
                return (tail, "Read", key)
            return (head, "Write", key)

        clients = [_client(f"cli{i}", plan) for i in range(3)]
        sim = make_sim([net, *nodes, *stores, *clients], p.end())
        for i, t in enumerate(arr):
            sim.schedule(ev(t, "start", clients[i % 3], worker=i))
        # second wave of reads a positive time later: keys are dirty on head/middle while the ack travels
        t_late = min(arr) + int(p.lat(0) * 1e9) + 1
        for j in range(3):
            sim.schedule(ev(t_late, "Read", nodes[j % (n_nodes - 1)], key=KEYS[0]))
        comps = {n.name: n for n in nodes}
        comps["net"] = net
        return Scenario(sim, comps, "replication", True, len(arr) + 3)

    return build


scenario("replication.chain_three", "replication")(_chain(False, 3, 0.0))
scenario("replication.chain_four_lossy", "replication")(_chain(False, 4, 0.05))
scenario("replication.chain_craq", "replication")(_chain(True, 4, 0.0))
scenario("replication.chain_craq_lossy", "replication")(_chain(True, 3, 0.05))


@scenario("replication.chain_manual_two", "replication")
def chain_manual_two(seed, params):
    """Hand-wired 2-node chain without `head_node` (tail acks to `prev_node`) and a lone HEAD."""
    p = P(params, seed)
    net = Network(name="net")
    s0, s1, s2 = _store("s0", p, 0), _store("s1", p, 2), _store("s2", p, 4)
    head = ChainNode("head", store=s0, network=net, role=ChainNodeRole.HEAD, craq_enabled=True)
    tail = ChainNode("tail", store=s1, network=net, role=ChainNodeRole.TAIL, craq_enabled=True)
    head.next_node, tail.prev_node = tail, head
    lone = ChainNode("lone", store=s2, network=net, role=ChainNodeRole.HEAD, craq_enabled=True)
    _mesh(net, [head, tail], p, k0=5)
    arr = p.arrivals(8)
    plan = lambda i: [(head, "Write", "k"), (lone, "Write", "k"), (head, "Read", "k"), (lone, "Read", "k")][i % 4]
    clients = [_client(f"cli{i}", plan) for i in range(2)]
    sim = make_sim([net, head, tail, lone, s0, s1, s2, *clients], p.end())
    for i, t in enumerate(arr):
        sim.schedule(ev(t, "start", clients[i % 2], worker=i))
    return Scenario(sim, {"head": head, "tail": tail, "lone": lone}, "replication", True, len(arr))


# ----------------------------------------------------------------------
# multi-leader


def _merge_concat(key, a: VersionedValue, b: VersionedValue) -> VersionedValue:
    lo, hi = sorted([a, b], key=lambda v: (v.timestamp, v.writer_id))
    vc = dict(lo.vector_clock or {})
    for k, n in (hi.vector_clock or {}).items():
        vc[k] = max(vc.get(k, 0), n)
    return VersionedValue(value=f"{lo.value}+{hi.value}"[:200], timestamp=hi.timestamp, writer_id=hi.writer_id, vector_clock=vc)


def _pick_min(key, versions):
    return min(versions, key=lambda v: (str(v.value), v.writer_id))


_RESOLVERS = {
    "lww": lambda: LastWriterWins(),
    "vc_merge": lambda: VectorClockMerge(_merge_concat),
    "vc_default": lambda: VectorClockMerge(),
    "custom": lambda: CustomResolver(_pick_min),
}


def _multi_leader(resolver: str, n: int, default_loss: float, with_partition: bool):
    def build(seed, params):
        p = P(params, seed)
        rng = random.Random(seed)
        end = p.end()
        net = Network(name="net")
        stores = [_store(f"ls{i}", p, 2 * i) for i in range(n)]
        # x.raw_intervals: use the drawn latencies unscaled (reproducer for sub-nanosecond intervals)
        ae = [p.lat(6 + i) if p.x("raw_intervals", False) else _period(p.lat(6 + i), end / 150.0) for i in range(n)]
        leaders = [
            LeaderNode(f"leader{i}", store=stores[i], network=net, conflict_resolver=_RESOLVERS[resolver](), anti_entropy_interval=ae[i])
            for i in range(n)
        ]
        for ld in leaders:
            ld.add_peers([o for o in leaders if o is not ld])
        _mesh(net, leaders, p, k0=1, loss=float(p.x("loss", default_loss)))
        arr = p.arrivals(12)

        def plan(i):
            # same key, same nanosecond, different leaders => concurrent versions
            key = KEYS[0] if rng.random() < 0.7 else KEYS[1]
            if i >= 1000:  # writes issued on both sides of the partition
                return (leaders[(i - 1000) % n], "Write", KEYS[0])
            if i % 4 == 3:
                return (leaders[i % n], "Read", key)
            return (leaders[i % n], "Write", key)

        clients = [_client(f"cli{i}", plan) for i in range(3)]

        def late_start(proc, event):
            # the documented start-up idiom, used at a positive time: the event is stamped `now`
            e = leaders[-1].get_anti_entropy_event()
            proc.done += 1
            return [e] if e is not None else None

        starter = Proc("ae_starter", late_start)
        ents = [net, *leaders, *stores, *clients, starter]
        comps = {ld.name: ld for ld in leaders}
        comps["net"] = net
        if with_partition:
            pp = _partition_proc(net, [leaders[0]], leaders[1:], p.lat(0) * 0.5, max(ae) * 2.5)
            ents.append(pp)
            comps["partitioner"] = pp
        sim = make_sim(ents, end)
        for ld in leaders[:-1]:
            e = ld.get_anti_entropy_event()  # at t=0: first tick one interval later
            if e is not None:
                sim.schedule(e)
        sim.schedule(ev(min(arr), "start", starter))
        for i, t in enumerate(arr):
            sim.schedule(ev(t, "start", clients[i % 3], worker=i))
        if with_partition:
            sim.schedule(ev(min(arr), "start", pp))
            # writes on both sides during the partition
            t_mid = min(arr) + int((p.lat(0) * 0.5 + max(ae)) * 1e9)
            for j in range(n):
                sim.schedule(ev(t_mid, "start", clients[j % 3], worker=1000 + j))
        return Scenario(sim, comps, "replication", True, len(arr) + 1 + (n if with_partition else 0))

    return build


scenario("replication.multi_leader_lww", "replication")(_multi_leader("lww", 3, 0.05, False))
scenario("replication.multi_leader_vc_merge", "replication")(_multi_leader("vc_merge", 3, 0.0, False))
scenario("replication.multi_leader_vc_default", "replication")(_multi_leader("vc_default", 2, 0.1, False))
scenario("replication.multi_leader_custom_partition", "replication")(_multi_leader("custom", 3, 0.02, True))
scenario("replication.multi_leader_lww_partition", "replication")(_multi_leader("lww", 4, 0.0, True))


@scenario("replication.anti_entropy_one_ns_interval", "replication")
def anti_entropy_one_ns(seed, params):
    """anti_entropy_interval of exactly one nanosecond (x.tick) over a 3 microsecond horizon.

    A correct periodic timer makes ~3000 ticks and stops at the horizon; the horizon (not
    `p.end()`) bounds the work so that the smallest representable interval can be used unscaled.
    """
    p = P(params, seed)
    tick = float(p.x("tick", 1e-9))
    net = Network(name="net")
    sa, sb = _store("lsa", p, 0), _store("lsb", p, 2)
    a = LeaderNode("la", store=sa, network=net, conflict_resolver=LastWriterWins(), anti_entropy_interval=tick)
    b = LeaderNode("lb", store=sb, network=net, conflict_resolver=LastWriterWins(), anti_entropy_interval=_period(p.lat(4), 2e-7))
    a.add_peers([b])
    b.add_peers([a])
    _mesh(net, [a, b], p, k0=5)
    arr = p.arrivals(4)
    t0 = min(arr)
    horizon_ns = t0 + 3_000

    def start(proc, event):
        proc.done += 1
        return [e for e in (a.get_anti_entropy_event(), b.get_anti_entropy_event()) if e is not None]

    starter = Proc("ae_starter", start)
    plan = lambda i: ((a, b)[i % 2], "Write", KEYS[0])
    clients = [_client(f"cli{i}", plan) for i in range(2)]
    sim = make_sim([net, a, b, sa, sb, starter, *clients], (horizon_ns + 1) / 1e9)
    sim.schedule(ev(t0, "start", starter))
    for i, t in enumerate(arr):
        sim.schedule(ev(t, "start", clients[i % 2], worker=i))
    return Scenario(sim, {"la": a, "lb": b}, "replication", True, len(arr) + 1)

"""Shared harness for C14 / C15: build real storage engines from a JSON config,
drive them with client processes inside a real Simulation, record the history
at the client boundary, and sample public counters to locate flush /
compaction / split windows (used for non-triviality and for mechanism shapes,
never for verdicts).
"""

from __future__ import annotations

import itertools
import random

from hsverif.core import ensure_repo_on_path

ensure_repo_on_path()

from happysimulator import Entity, Event, Instant, Simulation  # noqa: E402
from happysimulator.components.datastore.kv_store import KVStore  # noqa: E402
from happysimulator.components.storage.btree import BTree  # noqa: E402
from happysimulator.components.storage.lsm_tree import (  # noqa: E402
    FIFOCompaction,
    LeveledCompaction,
    LSMTree,
    SizeTieredCompaction,
)
from happysimulator.components.storage.wal import (  # noqa: E402
    SyncEveryWrite,
    SyncOnBatch,
    SyncPeriodic,
    WriteAheadLog,
)

from hsverif.probe import EngineProbe  # noqa: E402

KEY_POOL = ["a", "ab", "b", "ba", "c", "k1", "k10", "k2", "m", "z"]
US = 1e-6


# --------------------------------------------------------------------------
# configuration -> real components


def make_strategy(spec: dict):
    k = spec["kind"]
    if k == "size_tiered":
        return SizeTieredCompaction(min_sstables=spec["min_sstables"])
    if k == "leveled":
        return LeveledCompaction(
            level_0_max=spec["level_0_max"], size_ratio=spec["size_ratio"], base_size_keys=spec["base_size_keys"]
        )
    if k == "fifo":
        return FIFOCompaction(max_total_sstables=spec["max_total_sstables"])
    raise KeyError(k)


def make_wal(spec: dict | None, name="wal"):
    if spec is None:
        return None
    p = spec["policy"]
    if p["kind"] == "every":
        pol = SyncEveryWrite()
    elif p["kind"] == "batch":
        pol = SyncOnBatch(batch_size=p["n"])
    elif p["kind"] == "periodic":
        pol = SyncPeriodic(interval_s=p["interval"])
    else:
        raise KeyError(p["kind"])
    return WriteAheadLog(name, sync_policy=pol, write_latency=spec["write_latency"], sync_latency=spec["sync_latency"])


def build_store(cfg: dict):
    """Returns (store, wal_or_None)."""
    e = cfg["engine"]
    if e == "lsm":
        wal = make_wal(cfg.get("wal"))
        store = LSMTree(
            "lsm",
            memtable_size=cfg["memtable_size"],
            compaction_strategy=make_strategy(cfg["strategy"]),
            wal=wal,
            sstable_read_latency=cfg["sstable_read_latency"],
            sstable_write_latency=cfg["sstable_write_latency"],
            max_levels=cfg["max_levels"],
        )
        return store, wal
    if e == "btree":
        return (
            BTree(
                "btree",
                order=cfg["order"],
                page_read_latency=cfg["page_read_latency"],
                page_write_latency=cfg["page_write_latency"],
            ),
            None,
        )
    if e == "kv":
        return (
            KVStore(
                "kv",
                read_latency=cfg["read_latency"],
                write_latency=cfg["write_latency"],
                delete_latency=cfg.get("delete_latency"),
            ),
            None,
        )
    raise KeyError(e)


def component_name(cfg: dict) -> str:
    return {"lsm": "LSMTree", "btree": "BTree", "kv": "KVStore"}[cfg["engine"]]


# --------------------------------------------------------------------------
# random configurations (JSON)


def _lat(rng: random.Random, choices):
    return rng.choice(choices)


def gen_strategy(rng: random.Random, kind: str) -> dict:
    if kind == "size_tiered":
        return {"kind": kind, "min_sstables": rng.choice([2, 2, 3])}
    if kind == "leveled":
        return {
            "kind": kind,
            "level_0_max": rng.choice([2, 2, 3]),
            "size_ratio": rng.choice([1, 2]),
            "base_size_keys": rng.choice([1, 2, 3]),
        }
    return {"kind": "fifo", "max_total_sstables": rng.choice([1, 2, 3])}


def gen_wal(rng: random.Random, policy: str | None = None) -> dict:
    policy = policy or rng.choice(["every", "batch", "periodic"])
    if policy == "every":
        pol = {"kind": "every"}
    elif policy == "batch":
        pol = {"kind": "batch", "n": rng.choice([2, 3, 4])}
    else:
        pol = {"kind": "periodic", "interval": rng.choice([0.0005, 0.002, 0.005])}
    return {
        "policy": pol,
        "write_latency": rng.choice([0.0001, 0.00005]),
        "sync_latency": rng.choice([0.001, 0.0005, 0.0002]),
    }


def gen_lsm_cfg(rng: random.Random, kind: str, wal="maybe", wal_policy=None) -> dict:
    cfg = {
        "engine": "lsm",
        "memtable_size": rng.choice([1, 2, 2, 3, 4]),
        "max_levels": rng.choice([2, 3, 3, 4]),
        "strategy": gen_strategy(rng, kind),
        "sstable_read_latency": rng.choice([0.001, 0.0005, 0.0002]),
        "sstable_write_latency": rng.choice([0.002, 0.001, 0.0005]),
        "wal": None,
    }
    if wal is True or (wal == "maybe" and rng.random() < 0.4):
        cfg["wal"] = gen_wal(rng, wal_policy)
    return cfg


def gen_btree_cfg(rng: random.Random) -> dict:
    return {
        "engine": "btree",
        "order": rng.choice([3, 3, 4, 5]),
        "page_read_latency": rng.choice([0.001, 0.0005]),
        "page_write_latency": rng.choice([0.002, 0.001]),
    }


def gen_kv_cfg(rng: random.Random) -> dict:
    return {
        "engine": "kv",
        "read_latency": rng.choice([0.001, 0.0005, 0.0]),
        "write_latency": rng.choice([0.005, 0.002, 0.001]),
        "delete_latency": rng.choice([None, 0.001, 0.004]),
    }


def gen_keys(rng: random.Random, lo=3, hi=8) -> list[str]:
    return sorted(rng.sample(KEY_POOL, rng.randint(lo, hi)))


def gen_think(rng: random.Random, scale: float) -> float:
    """Think time in whole microseconds: often zero, often a fraction of the engine's latencies."""
    r = rng.random()
    if r < 0.35:
        return 0.0
    if r < 0.85:
        return round(rng.uniform(0, scale) / US) * US
    return round(rng.uniform(0, 4 * scale) / US) * US


FALSY_VALUES = [0, 0.0, "", False, [], {}]


def gen_client_ops(rng: random.Random, keys: list[str], n: int, scale: float, mix: dict, scans=True, falsy=0.0) -> list[list]:
    """ops: [think, op, key] | [think, 'put'|'put_sync', key, value] | [think, 'scan', start, end]

    With probability `falsy` a put writes one of the falsy values 0, 0.0, "", False, [], {} instead of its unique
    string (a store must keep and delete them like any other value)."""
    ops = []
    names = list(mix)
    weights = [mix[k] for k in names]
    for _ in range(n):
        op = rng.choices(names, weights)[0]
        think = gen_think(rng, scale)
        if op == "scan":
            if not scans:
                op = "get"
            else:
                a, b = sorted(rng.sample(range(len(keys) + 1), 2))
                start = keys[a] if rng.random() < 0.8 else keys[a] + "!"
                end = keys[b] if b < len(keys) else "~"
                ops.append([think, "scan", start, end])
                continue
        ops.append([think, op, rng.choice(keys)])
        if falsy and op in ("put", "put_sync") and rng.random() < falsy:
            ops[-1].append(rng.choice(FALSY_VALUES))
    return ops


BURST_OFFSETS = [0.0, 0.0, 0.0, 1e-6, 3e-6, 6e-6, 9e-6, 1.2e-5]


def gen_burst_clients(rng: random.Random, keys: list[str], scale: float, mix: dict, scans=True, max_clients=9, falsy=0.0) -> list[dict]:
    """One-shot clients grouped in 1-3 bursts: the clients of one burst start within 0-12 microseconds of one
    instant (often the very same nanosecond), so that operations of different clients sit inside each other's
    shortest internal latencies (memtable write 10 us, transaction begin / write 1 us).  Each issues 1-2 ops."""
    clients: list[dict] = []
    t = gen_think(rng, 2 * scale)
    for _ in range(rng.randint(1, 3)):
        for _ in range(rng.randint(2, 5)):
            if len(clients) >= max_clients:
                break
            ops = gen_client_ops(rng, keys, rng.choice([1, 1, 2]), 0.0, mix, scans, falsy=falsy)
            for op in ops:
                op[0] = rng.choice(BURST_OFFSETS)
            clients.append({"start": round((t + rng.choice(BURST_OFFSETS)) / US) * US, "ops": ops})
        t += scale + gen_think(rng, 4 * scale)
    return clients


# --------------------------------------------------------------------------
# client process + history


class History:
    """Operation records appended at invocation, completed at return.

    rec: {c, i, op, key|start,end, val, t0, s0, t1, s1, res}
    t* are integer nanoseconds of the simulation clock; s* a global logical
    counter over all client-boundary events (actual execution order).
    """

    def __init__(self):
        self.recs: list[dict] = []
        self.ctr = itertools.count(1)

    def begin(self, client: int, idx: int, op: str, now_ns: int, **kw) -> dict:
        rec = {"c": client, "i": idx, "op": op, "t0": now_ns, "s0": next(self.ctr), "t1": None, "s1": None, "res": None}
        rec.update(kw)
        self.recs.append(rec)
        return rec

    def end(self, rec: dict, now_ns: int, res=None):
        rec["t1"] = now_ns
        rec["s1"] = next(self.ctr)
        rec["res"] = res


class StoreClient(Entity):
    """Runs one generated program against the store; every op recorded at the client boundary."""

    def __init__(self, idx: int, store, ops: list, hist: History, ledger=None):
        super().__init__(f"client{idx}")
        self.idx = idx
        self.store = store
        self.ops = ops
        self.hist = hist
        self.ledger = ledger  # optional callable(rec) invoked just before a write is issued (C15: WAL sequence)

    def handle_event(self, event):
        return self._go()

    def _go(self):
        st, h, c = self.store, self.hist, self.idx
        for i, step in enumerate(self.ops):
            think, op = step[0], step[1]
            if think > 0:
                yield think
            now = self.now.nanoseconds
            if op == "put":
                val = step[3] if len(step) > 3 else f"c{c}o{i}"
                rec = h.begin(c, i, "put", now, key=step[2], val=val)
                if self.ledger:
                    self.ledger(rec)
                yield from st.put(step[2], val)
                h.end(rec, self.now.nanoseconds)
            elif op == "delete":
                rec = h.begin(c, i, "delete", now, key=step[2], val=None)
                if self.ledger:
                    self.ledger(rec)
                r = yield from st.delete(step[2])
                h.end(rec, self.now.nanoseconds, r)
            elif op == "get":
                rec = h.begin(c, i, "get", now, key=step[2])
                r = yield from st.get(step[2])
                h.end(rec, self.now.nanoseconds, r)
            elif op == "scan":
                rec = h.begin(c, i, "scan", now, start=step[2], end=step[3])
                r = yield from st.scan(step[2], step[3])
                h.end(rec, self.now.nanoseconds, [[k, v] for k, v in r])
            elif op == "put_sync":
                val = step[3] if len(step) > 3 else f"c{c}o{i}"
                rec = h.begin(c, i, "put", now, key=step[2], val=val, sync=True)
                if self.ledger:
                    self.ledger(rec)
                st.put_sync(step[2], val)
                h.end(rec, self.now.nanoseconds)
            elif op == "get_sync":
                rec = h.begin(c, i, "get", now, key=step[2], sync=True)
                r = st.get_sync(step[2])
                h.end(rec, self.now.nanoseconds, r)
            elif op == "delete_sync":
                rec = h.begin(c, i, "delete", now, key=step[2], val=None, sync=True)
                r = st.delete_sync(step[2])
                h.end(rec, self.now.nanoseconds, r)
            else:
                raise KeyError(op)


class Sampler:
    """Samples public counters after every delivery to timestamp flush / compaction / split completions."""

    def __init__(self, store, cfg):
        self.store = store
        self.engine = cfg["engine"]
        self.flushes: list[int] = []  # completion times (ns)
        self.flush_keys: list[int] = []  # keys of the SSTable installed by that flush (from public level_summary), 0 = unknown
        self._l0_keys = 0
        self.compactions: list[int] = []
        self.splits: list[int] = []
        self._last = (0, 0, 0)
        self.hist = None  # optional History: lets the sampler tell put_sync flushes of the current event apart
        self._hist_seen = 0
        self.multi_install_events = 0  # deliveries in which one flush call installed >= 2 SSTables
        # durable watermark (public wal.synced_up_to), observed after every delivery: the maximum ever seen is the
        # durability fact; any decrease between two observations is recorded
        self.wal = None
        self.max_synced = 0
        self._last_synced = 0
        self.synced_decreases: list[dict] = []
        if self.engine == "lsm":
            st = store.stats
            self._last = (st.memtable_flushes, st.compactions, 0)
            self._l0_keys = next((lv["total_keys"] for lv in store.level_summary if lv["level"] == 0), 0)
        self.now_ns = 0
        self.events = 0

    def on_time(self, t):
        self.now_ns = t.nanoseconds

    def on_event(self, event):
        self.events += 1
        try:
            self._on_event(event)
        finally:
            if self.hist is not None:
                self._hist_seen = len(self.hist.recs)

    def watch_wal(self, wal):
        self.wal = wal
        if wal is not None:
            self._last_synced = wal.synced_up_to
            self.max_synced = max(self.max_synced, self._last_synced)

    def observe_wal(self, t_ns, where="after-delivery"):
        if self.wal is None:
            return
        v = self.wal.synced_up_to
        if v < self._last_synced:
            self.synced_decreases.append({"t": t_ns, "from": self._last_synced, "to": v, "where": where})
        self._last_synced = v
        if v > self.max_synced:
            self.max_synced = v

    def _on_event(self, event):
        self.observe_wal(event.time.nanoseconds)
        t = event.time.nanoseconds
        self.now_ns = t
        if self.engine == "lsm":
            s = self.store.stats
            f, c, _ = self._last
            if s.memtable_flushes > f:
                n = s.memtable_flushes - f
                l0 = next((lv["total_keys"] for lv in self.store.level_summary if lv["level"] == 0), 0)
                delta = l0 - self._l0_keys
                self.flushes.extend([t] * n)
                # installs that cannot be put_sync flushes issued in this very delivery: >= 2 of them means that a
                # put()/delete() flush installed parked SSTables together with its own
                n_sync = 0
                if self.hist is not None:
                    new = self.hist.recs[self._hist_seen :]
                    n_sync = sum(1 for r in new if r.get("sync") and r["op"] == "put")
                if n - n_sync >= 2:
                    self.multi_install_events += 1
                self.flush_keys.extend([max(0, delta) // n] * n)
                self._l0_keys = l0
            elif s.compactions > c:
                self._l0_keys = next((lv["total_keys"] for lv in self.store.level_summary if lv["level"] == 0), 0)
            if s.compactions > c:
                self.compactions.extend([t] * (s.compactions - c))
            self._last = (s.memtable_flushes, s.compactions, 0)
        elif self.engine == "btree":
            s = self.store.stats
            if s.node_splits > self._last[2]:
                self.splits.extend([t] * (s.node_splits - self._last[2]))
            self._last = (0, 0, s.node_splits)


def build_sim(case: dict, ledger_factory=None):
    """Builds store, clients and the Simulation from case['store'] / case['clients'].

    Returns (sim, store, wal, hist, sampler, clients).
    """
    cfg = case["store"]
    store, wal = build_store(cfg)
    for k, v in case.get("preload", []):
        store.put_sync(k, v)
    hist = History()
    clients = []
    for idx, cl in enumerate(case["clients"]):
        led = ledger_factory(wal) if ledger_factory else None
        clients.append(StoreClient(idx, store, cl["ops"], hist, led))
    sim = Simulation(entities=[store, *clients])
    for cl, spec in zip(clients, case["clients"]):
        sim.schedule(Event(time=Instant.from_seconds(spec["start"]), event_type="go", target=cl))
    sampler = Sampler(store, cfg)
    sampler.hist = hist
    sampler.watch_wal(wal)
    sim.control.on_event(sampler.on_event)
    return sim, store, wal, hist, sampler, clients


def run_history(case: dict, total_cap=200_000):
    """Runs the case to completion under a capped probe. Returns (status, store, wal, hist, sampler)."""
    sim, store, wal, hist, sampler, _ = build_sim(case)
    with EngineProbe(log_deliveries=False, instant_cap=20000, total_cap=total_cap, record_emissions=False) as p:
        status = p.run(sim)
    return status, store, wal, hist, sampler

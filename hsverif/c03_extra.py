"""Determinism-specific scenarios added to the shared catalogue (family "determinism").

They make hash-randomisation and wall-clock dependence *observable in the digest*:
sketches fed with string items whose answers are part of the public snapshot, a cache
with the default-clock TTL policy under capacity pressure, string-keyed consistent hashing.
"""

from __future__ import annotations

import random

from hsverif.scenarios import CATALOGUE, Scenario, scenario
from hsverif.scenarios._kit import ConstantLatency, Entity, Event, P, ev, make_sim

def _canon(x):
    """Label of an item for the digest that does not itself depend on PYTHONHASHSEED (repr of a set does)."""
    if isinstance(x, (set, frozenset)):
        return "set{" + ", ".join(sorted(_canon(e) for e in x)) + "}"
    if isinstance(x, tuple):
        return "(" + ", ".join(_canon(e) for e in x) + ")"
    return repr(x)


if "determinism.sketch_answers_strings" not in CATALOGUE:

    class Answers:
        """Public view of sketch answers, evaluated when the snapshot is taken (after the run)."""

        def __init__(self, fn):
            self._fn = fn

        @property
        def answers(self):
            return self._fn()

    class Feeder(Entity):
        def __init__(self, name, sinks):
            super().__init__(name)
            self.sinks = sinks
            self.fed = 0

        def handle_event(self, event):
            item = event.context["metadata"]["item"]
            self.fed += 1
            self.items = getattr(self, "items", [])
            self.items.append(item)
            for s in self.sinks:
                s.add(item)
            return None

    @scenario("determinism.sketch_answers_strings", "determinism")
    def sketch_answers_strings(seed, params):
        """String items into tiny Count-Min / Bloom / HLL / TopK sketches; the snapshot contains
        every estimate, so a hash-seed dependent column choice changes the digest."""
        from happysimulator.sketching import BloomFilter, CountMinSketch, HyperLogLog, TopK

        rng = random.Random(seed)
        cms = CountMinSketch(width=3, depth=2, seed=seed)
        bloom = BloomFilter(size_bits=16, num_hashes=2, seed=seed)
        hll = HyperLogLog(precision=4, seed=seed)
        topk = TopK(k=3)
        items = [f"user-{i}" for i in range(12)] + [("tenant", i) for i in range(4)] + [b"raw-%d" % i for i in range(3)]
        # composite keys with a numeric member: ints for even seeds, the equal floats for odd seeds (two models of
        # one process may use equal keys of different type; what a sketch hashes must depend on the key alone)
        items += [("region", i if seed % 2 == 0 else float(i)) for i in range(6)]
        # composite keys (tuples with strings, frozensets, bytes) into a finer HLL as well
        items += [("tenant-%d" % (i % 5), "endpoint-%d" % i) for i in range(40)] + [frozenset({"a", "k%d" % i}) for i in range(10)] + [b"blob-%d" % i for i in range(10)]
        hll_fine = HyperLogLog(precision=8, seed=seed)
        feeder = Feeder("feeder", [cms, bloom, hll, hll_fine, topk])
        sim = make_sim([feeder], 10.0)
        for i in range(220):
            it = rng.choice(items)
            sim.schedule(Event(time=ev(i * 1000, "x", feeder).time, event_type="Item", target=feeder, context={"metadata": {"item": it}}))

        def answers():
            probes = items + ["absent-1", "absent-2", ("tenant", 99)]
            return {
                "cms": [cms.estimate(x) for x in probes],
                "bloom": [bloom.contains(x) for x in probes],
                "hll": hll.cardinality(),
                "hll_fine": hll_fine.cardinality(),
                "topk": [[_canon(t.item), t.count, t.error] for t in topk.top()],
                "merged": merged(),
            }

        def merged():
            # round 8: the two halves of the string items seen so far in two sketches of each kind, merged; with k=3 the
            # receiving TopK is full and the other one tracks items it does not (C03-r8-1: TopK.merge walked a *set* of
            # str keys, so which counter a newcomer evicted, and with it counts and errors, followed PYTHONHASHSEED)
            fed = [x for x in getattr(feeder, "items", []) if isinstance(x, (str, bytes))]
            half = len(fed) // 2
            out = {}
            for name, mk in (("topk", lambda: TopK(k=3)), ("topk5", lambda: TopK(k=5)), ("cms", lambda: CountMinSketch(width=3, depth=2, seed=seed)), ("hll", lambda: HyperLogLog(precision=4, seed=seed))):
                a, b = mk(), mk()
                for x in fed[:half]:
                    a.add(x)
                for x in fed[half:]:
                    b.add(x)
                a.merge(b)
                if name.startswith("topk"):
                    out[name] = [[_canon(t.item), t.count, t.error] for t in a.top()] + [a.max_error()]
                elif name == "cms":
                    out[name] = [a.estimate(x) for x in items[:12]]
                else:
                    out[name] = a.cardinality()
            return out

        return Scenario(sim, {"feeder": feeder, "sketches": Answers(answers)}, "determinism", True, 220)

    @scenario("determinism.ttl_cache_default_clock", "determinism")
    def ttl_cache_default_clock(seed, params):
        """CachedStore with TTLEviction (default clock) under capacity pressure: which key is evicted
        must not depend on wall-clock time."""
        from happysimulator.components.datastore import CachedStore, KVStore
        from happysimulator.components.datastore.eviction_policies import TTLEviction

        rng = random.Random(seed)
        backing = KVStore("backing", read_latency=0.002, write_latency=0.003)
        pol = TTLEviction(ttl=0.05)
        cache = CachedStore("cache", backing_store=backing, cache_capacity=2, eviction_policy=pol, cache_read_latency=0.0005)

        class Client(Entity):
            def __init__(self):
                super().__init__("client")
                self.results = []

            def handle_event(self, event):
                md = event.context["metadata"]
                if md["op"] == "put":
                    yield from cache.put(md["k"], md["v"])
                elif md["op"] == "invalidate_all":
                    cache.invalidate_all()
                elif md["op"] == "inspect":
                    self.results.append(["expired", sorted(pol.get_expired_keys()), [pol.is_expired(k) for k in sorted(cache.get_cached_keys())]])
                else:
                    v = yield from cache.get(md["k"])
                    self.results.append([md["k"], v])

        client = Client()
        sim = make_sim([backing, cache, client], 20.0)
        keys = ["a", "b", "c", "d"]
        t = 0
        for i in range(40):
            t += rng.choice([1_000_000, 20_000_000, 70_000_000])
            r = rng.random()
            if r < 0.4:
                sim.schedule(ev(t, "Op", client, op="put", k=rng.choice(keys), v=i))
            elif r < 0.5 or i == 12:
                sim.schedule(ev(t, "Op", client, op="invalidate_all"))
            elif r < 0.7:
                sim.schedule(ev(t, "Op", client, op="inspect"))
            else:
                sim.schedule(ev(t, "Op", client, op="get", k=rng.choice(keys)))
        return Scenario(sim, {"cache": cache, "backing": backing, "client": client}, "determinism", True, 40)


if "determinism.cache_policy_lru" not in CATALOGUE:

    def _policy(name, seed):
        from happysimulator.components.datastore import eviction_policies as ep

        return {
            "lru": lambda: ep.LRUEviction(),
            "lfu": lambda: ep.LFUEviction(),
            "ttl": lambda: ep.TTLEviction(ttl=0.05),
            "fifo": lambda: ep.FIFOEviction(),
            "random": lambda: ep.RandomEviction(seed=seed),
            "slru": lambda: ep.SLRUEviction(),
            "sampled_lru": lambda: ep.SampledLRUEviction(sample_size=3, seed=seed),
            "clock": lambda: ep.ClockEviction(),
            "two_queue": lambda: ep.TwoQueueEviction(),
        }[name]()

    def _make_cache_scenario(pname, large=False):
        @scenario(f"determinism.cache_policy_{pname}" + ("_large_keyspace" if large else ""), "determinism")
        def cache_policy(seed, params, pname=pname, large=large):
            """CachedStores (write-back half of the time) with string keys under heavy capacity pressure:
            which key a policy evicts decides hits, misses and the delivery times of every later operation.
            The large variant runs four independent cache/client groups with different sub-seeds in one
            simulation (key space a little larger than the caches' ghost lists)."""
            from happysimulator.components.datastore import CachedStore, KVStore

            entities, comps, total = [], {}, 0
            scheduled = []
            for g in range(4 if large else 1):
                rng = random.Random(f"{seed}/{g}")
                backing = KVStore(f"backing{g}", read_latency=0.002, write_latency=0.003)
                pol = _policy(pname, seed + g)
                cache = CachedStore(
                    f"cache{g}",
                    backing_store=backing,
                    cache_capacity=rng.choice([2, 3, 8]),
                    eviction_policy=pol,
                    cache_read_latency=0.0005,
                    write_through=rng.random() < 0.5,
                )

                class Client(Entity):
                    def __init__(self, name, cache, pol):
                        super().__init__(name)
                        self.cache = cache
                        self.pol = pol
                        self.results = []

                    def handle_event(self, event):
                        md = event.context["metadata"]
                        if md["op"] == "put":
                            yield from self.cache.put(md["k"], md["v"])
                        elif md["op"] == "flush":
                            yield from self.cache.flush()
                        elif md["op"] == "invalidate_all":
                            # clear-and-reuse in the middle of the run
                            self.cache.invalidate_all()
                        elif md["op"] == "inspect":
                            # what the policy / cache report right now is part of the public history
                            expired = getattr(self.pol, "get_expired_keys", None)
                            self.results.append(["cached", sorted(self.cache.get_cached_keys()), sorted(expired()) if expired else None])
                        else:
                            v = yield from self.cache.get(md["k"])
                            self.results.append([md["k"], v])

                client = Client(f"client{g}", cache, pol)
                entities += [backing, cache, client]
                comps.update({f"cache{g}": cache, f"backing{g}": backing, f"client{g}": client})
                keys = [f"user:{i}:profile" for i in range(rng.choice([70, 90, 120]) if large else rng.choice([6, 12, 80]))]
                skew = (not large) and rng.random() < 0.5

                def pick(rng=rng, keys=keys, skew=skew):
                    return keys[(int(rng.paretovariate(0.9)) - 1) % len(keys)] if skew else rng.choice(keys)

                t = 0
                n = 600 if large else 300
                total += n
                for i in range(n):
                    t += rng.choice([1_000_000, 5_000_000, 20_000_000])
                    r = rng.random()
                    if r < 0.35:
                        scheduled.append((t, client, dict(op="put", k=pick(), v=i)))
                    elif r < 0.38:
                        scheduled.append((t, client, dict(op="flush")))
                    elif r < 0.395:
                        scheduled.append((t, client, dict(op="invalidate_all")))
                    elif r < 0.45:
                        scheduled.append((t, client, dict(op="inspect")))
                    else:
                        scheduled.append((t, client, dict(op="get", k=pick())))
            sim = make_sim(entities, 60.0)
            for t, client, md in scheduled:
                sim.schedule(ev(t, "Op", client, **md))
            return Scenario(sim, comps, "determinism", True, total)

        return cache_policy

    for _p in ("lru", "lfu", "ttl", "fifo", "random", "slru", "sampled_lru", "clock", "two_queue"):
        _make_cache_scenario(_p)
        _make_cache_scenario(_p, large=True)


if "determinism.parallel_same_instant_fanin" not in CATALOGUE:

    @scenario("determinism.parallel_same_instant_fanin", "determinism")
    def parallel_same_instant_fanin(seed, params):
        """ParallelSimulation: partitions A and B both send to an order-sensitive entity in partition C events
        that arrive on the same nanosecond.  Which of two same-instant arrivals C sees first must not depend on
        how fast the worker threads happen to run (env HSVERIF_C03_SLOW names the partition slowed in real time)."""
        import os
        import time as _t

        from happysimulator.core.temporal import Instant
        from happysimulator.parallel import ParallelSimulation, PartitionLink, SimulationPartition

        slow = os.environ.get("HSVERIF_C03_SLOW", "")
        rng = random.Random(seed)
        lat = rng.choice([0.1, 0.25, 0.05])

        class Ledger(Entity):
            """Order-sensitive: a debit is rejected unless the matching credit arrived before it."""

            def __init__(self):
                super().__init__("ledger")
                self.order = []
                self.balance = 0
                self.rejected = 0

            def handle_event(self, event):
                md = event.context["metadata"]
                self.order.append([self._clock.now.nanoseconds, event.event_type, md["i"]])
                if event.event_type == "Credit":
                    self.balance += 1
                elif self.balance > 0:
                    self.balance -= 1
                else:
                    self.rejected += 1
                return None

        ledger = Ledger()

        class Sender(Entity):
            def __init__(self, name, kind):
                super().__init__(name)
                self.kind = kind
                self.sent = 0

            def handle_event(self, event):
                if slow == self.name[-1]:
                    _t.sleep(0.002)  # real time, not simulated time
                self.sent += 1
                i = event.context["metadata"]["i"]
                return [Event(time=self.now + lat, event_type=self.kind, target=ledger, context={"metadata": {"i": i}})]

        a, b = Sender("senderA", "Credit"), Sender("senderB", "Debit")
        parts = [
            SimulationPartition(name="A", entities=[a]),
            SimulationPartition(name="B", entities=[b]),
            SimulationPartition(name="C", entities=[ledger]),
        ]
        links = [PartitionLink("A", "C", lat), PartitionLink("B", "C", lat)]
        ps = ParallelSimulation(parts, end_time=Instant.from_seconds(lat * 40), links=links, window_size=lat)
        n = 12
        for i in range(n):
            t = int(lat * 1e9) * (i + 1)
            ps.schedule(ev(t, "Go", a, i=i), partition="A")
            ps.schedule(ev(t, "Go", b, i=i), partition="B")
        return Scenario(ps, {"ledger": ledger, "senderA": a, "senderB": b}, "determinism", True, 2 * n, extras={"per_entity_only": True})


if "determinism.lb_keyless_consistent_hash" not in CATALOGUE:

    def _make_lb_keyless(sname):
        @scenario(f"determinism.lb_keyless_{sname}", "determinism")
        def lb_keyless(seed, params, sname=sname):
            """LoadBalancer strategies fed with requests that carry NO client/session/key metadata (what a plain
            Source produces): which backend serves a request must not depend on how many events the interpreter
            created earlier, nor on the hash seed."""
            from happysimulator.components.common import Sink
            from happysimulator.components.load_balancer import (
                ConsistentHash,
                IPHash,
                LeastConnections,
                LoadBalancer,
                PowerOfTwoChoices,
                Random,
                RoundRobin,
            )
            from happysimulator.components.server import Server

            rng = random.Random(seed)
            strategy = {
                "consistent_hash": lambda: ConsistentHash(),
                "ip_hash": lambda: IPHash(),
                "round_robin": lambda: RoundRobin(),
                "random": lambda: Random(),
                "power_of_two": lambda: PowerOfTwoChoices(),
                "least_connections": lambda: LeastConnections(),
            }[sname]()
            sink = Sink("sink")
            backends = [Server(f"backend{i}", concurrency=1, service_time=ConstantLatency(0.003 + 0.001 * i), downstream=sink) for i in range(4)]
            lb = LoadBalancer("lb", backends=backends, strategy=strategy)
            sim = make_sim([lb, sink, *backends], 30.0)
            t = 0
            for i in range(60):
                t += rng.choice([500_000, 2_000_000, 7_000_000])
                sim.schedule(ev(t, "Request", lb, seq=i))
            return Scenario(sim, {"lb": lb, "sink": sink, **{b.name: b for b in backends}}, "determinism", True, 60)

        return lb_keyless

    for _s in ("consistent_hash", "ip_hash", "round_robin", "random", "power_of_two", "least_connections"):
        _make_lb_keyless(_s)

    @scenario("determinism.crdt_store_late_joiner", "determinism")
    def crdt_store_late_joiner(seed, params):
        """CRDTStores gossiping G-counters; a fourth store joins later, so `add_peers()` is called a second time
        on stores that already have peers.  Which peer a store gossips to must not depend on object addresses."""
        from happysimulator.components.crdt import CRDTStore, GCounter
        from happysimulator.components.network.link import NetworkLink
        from happysimulator.components.network.network import Network

        rng = random.Random(seed)
        net = Network(name="net")
        stores = [CRDTStore(f"s{i}", network=net, crdt_factory=lambda nid: GCounter(nid), gossip_interval=0.05 + 0.01 * i) for i in range(4)]
        for i, a in enumerate(stores):
            for b in stores[i + 1 :]:
                net.add_bidirectional_link(a, b, NetworkLink(name=f"l_{a.name}_{b.name}", latency=ConstantLatency(0.002 + 0.001 * i)))
        first = stores[:3]
        for s in first:
            s.add_peers([o for o in first if o is not s])
        # the late joiner: every existing store learns about it through a second add_peers() call
        stores[3].add_peers(first)
        for s in first:
            s.add_peers([stores[3]] + [o for o in first if o is not s][:1])

        class Writer(Entity):
            def __init__(self):
                super().__init__("writer")
                self.writes = 0

            def handle_event(self, event):
                md = event.context["metadata"]
                self.writes += 1
                return [Event(time=self.now, event_type="Write", target=stores[md["s"]], context={"metadata": {"key": md["k"], "operation": "increment", "value": md["v"]}})]

        w = Writer()
        sim = make_sim([net, w, *stores], 6.0)
        for s in stores:
            g = s.get_gossip_event()
            if g is not None:
                sim.schedule(g)
        t = 0
        for i in range(40):
            t += rng.choice([10_000_000, 40_000_000, 90_000_000])
            sim.schedule(ev(t, "Go", w, s=rng.randrange(4), k=f"k{rng.randrange(3)}", v=1 + i % 3))
        return Scenario(sim, {"net": net, "writer": w, **{s.name: s for s in stores}}, "determinism", True, 40)


if "determinism.seed_zero_components" not in CATALOGUE:

    @scenario("determinism.seed_zero_components", "determinism")
    def seed_zero_components(seed, params):
        """0 is a legal seed.  Every library object with a private `seed=` stream is built with seed 0 (the
        scenario seed only shapes the workload) and sampled from handlers; the samples are public history."""
        from happysimulator.components.datastore import eviction_policies as ep
        from happysimulator.components.datastore.sharded_store import ConsistentHashSharding
        from happysimulator.distributions.uniform import UniformDistribution
        from happysimulator.distributions.zipf import ZipfDistribution
        from happysimulator.sketching import ReservoirSampler

        edge = 0
        rng = random.Random(seed)
        zipf = ZipfDistribution(list(range(50)), s=1.1, seed=edge)
        uni = UniformDistribution(["a", "b", "c", "d"], seed=edge)
        res = ReservoirSampler(size=5, seed=edge)
        rnd_pol = ep.RandomEviction(seed=edge)
        smp_pol = ep.SampledLRUEviction(sample_size=3, seed=edge)
        shard = ConsistentHashSharding(virtual_nodes=7, seed=edge)
        shard_seeded = ConsistentHashSharding(virtual_nodes=8, seed=seed)  # same geometry, the scenario's own seed

        class Sampler(Entity):
            def __init__(self):
                super().__init__("sampler")
                self.samples = []
                self.evicted = []

            def handle_event(self, event):
                i = event.context["metadata"]["i"]
                self.samples.append([zipf.sample(), uni.sample(), shard_seeded.get_shard(f"order-{i}", 5)])
                res.add(i)
                for pol in (rnd_pol, smp_pol):
                    pol.on_insert(f"k{i}")
                    if i % 3 == 2:
                        self.evicted.append(pol.evict())
                return None

        class View:
            @property
            def state(self):
                return {
                    "reservoir": list(res.sample()),
                    "shards": [shard.get_shard(f"user-{i}", 5) for i in range(20)],
                    "shards_seeded": [shard_seeded.get_shard(f"user-{i}", 5) for i in range(20)],
                }

        sampler = Sampler()
        sim = make_sim([sampler], 10.0)
        n = rng.choice([40, 80])
        for i in range(n):
            sim.schedule(ev(i * 1000, "Tick", sampler, i=i))
        return Scenario(sim, {"sampler": sampler, "view": View()}, "determinism", True, n)


if "determinism.control_several_hooks" not in CATALOGUE:

    @scenario("determinism.control_several_hooks", "determinism")
    def control_several_hooks(seed, params):
        """Three event hooks and two time-advance hooks whose effects do not commute (they share an accumulator
        and a journal): the order in which the engine calls them is part of the run."""
        rng = random.Random(seed)

        class Worker(Entity):
            def __init__(self, name):
                super().__init__(name)
                self.handled = 0

            def handle_event(self, event):
                self.handled += 1
                if event.event_type == "Req" and self.handled % 3 == 0:
                    return [Event(time=self.now + 0.001, event_type="Follow", target=self)]
                return None

        class Journal:
            def __init__(self):
                self.acc = 1
                self.entries = []

        workers = [Worker(f"w{i}") for i in range(3)]
        sim = make_sim(workers, 5.0)
        j = Journal()

        def mk_event_hook(tag, fn):
            def hook(ev):
                j.acc = fn(j.acc) % 1_000_003
                if len(j.entries) < 400:
                    j.entries.append([tag, ev.event_type, j.acc])

            return hook

        def mk_time_hook(tag, fn):
            def hook(t):
                j.acc = fn(j.acc) % 1_000_003
                if len(j.entries) < 400:
                    j.entries.append([tag, t.nanoseconds, j.acc])

            return hook

        ctl = sim.control
        ctl.on_event(mk_event_hook("double", lambda x: x * 2))
        ctl.on_event(mk_event_hook("plus7", lambda x: x + 7))
        ctl.on_event(mk_event_hook("square", lambda x: x * x + 1))
        ctl.on_time_advance(mk_time_hook("t-triple", lambda x: x * 3))
        ctl.on_time_advance(mk_time_hook("t-minus1", lambda x: x - 1))
        n = rng.choice([60, 120])
        for i in range(n):
            sim.schedule(ev(rng.choice([0, 1_000_000, 2_500_000]) * (i % 7 + 1), "Req", rng.choice(workers)))
        return Scenario(sim, {"journal": j, "w0": workers[0], "w1": workers[1], "w2": workers[2]}, "determinism", True, n)


if "determinism.mq_same_instant_requeue" not in CATALOGUE:

    @scenario("determinism.mq_same_instant_requeue", "determinism")
    def mq_same_instant_requeue(seed, params):
        """Several messages published at exactly the same instant, a consumer that rejects some of them with
        requeue and lets others time out: the order in which distinguishable payloads reach the consumer is
        public history (message ids are uuid4 labels and must not decide it)."""
        from happysimulator.components.messaging import MessageQueue

        rng = random.Random(seed)
        mq = MessageQueue("mq", delivery_latency=0.001, redelivery_delay=0.004, max_redeliveries=3)

        class Worker(Entity):
            def __init__(self):
                super().__init__("worker")
                self.order = []
                self.seen = {}

            def handle_event(self, event):
                if event.event_type != "message_delivery":
                    return None
                n = event.context["payload"].context["metadata"]["n"]
                mid = event.context.get("message_id")
                self.order.append(n)
                k = self.seen[n] = self.seen.get(n, 0) + 1
                yield 0.0005
                out = []
                if k == 1 and n % 2 == 1:
                    mq.reject(mid, requeue=True)
                elif k == 1 and n % 5 == 0:
                    e = mq.schedule_redelivery(mid)
                    if e is not None:
                        out.append(e)
                else:
                    mq.acknowledge(mid)
                out.append(Event(time=self.now, event_type="poll", target=mq))
                return out

        worker = Worker()
        mq.subscribe(worker)

        class Producer(Entity):
            def handle_event(self, event):
                n = event.context["metadata"]["n"]
                payload = Event(time=self.now, event_type="Order", target=worker, context={"metadata": {"n": n}})
                yield from mq.publish(payload)
                return [Event(time=self.now, event_type="poll", target=mq)]

        prods = [Producer(f"p{i}") for i in range(3)]
        sim = make_sim([mq, worker, *prods], 5.0)
        n = 0
        for burst in range(rng.choice([2, 3])):
            t = burst * 50_000_000
            for _ in range(rng.choice([4, 6])):
                sim.schedule(ev(t, "go", rng.choice(prods), n=n))  # the same nanosecond for the whole burst
                n += 1
        return Scenario(sim, {"mq": mq, "worker": worker}, "determinism", True, n)


# configuration objects a user keeps at module level and passes to every build (a NODES list, a key universe):
# the library must treat them as read-only
_SHARED_NODES = ["n1", "n2", "n3", "n4", "n5"]
_SHARED_KEYS = [f"key-{i}" for i in range(30)]
_SHARED_GROUP_A = ["n1", "n2"]
_SHARED_GROUP_B = ["n3", "n4", "n5"]

if "determinism.shared_config_objects" not in CATALOGUE:

    @scenario("determinism.shared_config_objects", "determinism")
    def shared_config_objects(seed, params):
        """Module-level lists handed to RandomPartition / NetworkPartition / Zipf / Uniform by every build of the
        model: a second build in the same interpreter must see them unchanged."""
        from happysimulator.components.network import Network, NetworkLink
        from happysimulator.distributions.uniform import UniformDistribution
        from happysimulator.distributions.zipf import ZipfDistribution
        from happysimulator.faults import FaultSchedule, NetworkPartition, RandomPartition

        rng = random.Random(seed)
        net = Network("net")
        zipf = ZipfDistribution(_SHARED_KEYS, s=1.2, seed=seed)
        uni = UniformDistribution(_SHARED_NODES, seed=seed + 1)
        nodes = {}

        class Node(Entity):
            def __init__(self, name):
                super().__init__(name)
                self.sent = 0
                self.got = []

            def handle_event(self, event):
                if event.event_type == "tick":
                    dst = uni.sample()
                    if dst == self.name:
                        return None
                    self.sent += 1
                    return [net.send(self, nodes[dst], "Msg", payload={"k": zipf.sample(), "from": self.name})]
                md = event.context.get("metadata", {})
                pl = md.get("payload") or event.context.get("payload") or {}
                self.got.append([pl.get("from"), pl.get("k")])
                return None

        for n in _SHARED_NODES:
            nodes[n] = Node(n)
        names = list(nodes)
        for i, a in enumerate(names):
            for b in names[i + 1 :]:
                net.add_bidirectional_link(nodes[a], nodes[b], NetworkLink(f"l-{a}-{b}", latency=ConstantLatency(0.002)))
        fs = FaultSchedule()
        fs.add(RandomPartition(_SHARED_NODES, mtbf=0.05, mttr=0.03, seed=seed))
        fs.add(NetworkPartition(_SHARED_GROUP_A, _SHARED_GROUP_B, start=0.1, end=0.2))
        sim = make_sim([net, *nodes.values()], 0.7, fault_schedule=fs)
        for i in range(150):
            sim.schedule(ev(i * 4_000_000, "tick", nodes[rng.choice(names)]))
        return Scenario(sim, {"net": net, **nodes}, "determinism", True, 150)



if "determinism.source_events_tagged_in_flight" not in CATALOGUE:

    @scenario("determinism.source_events_tagged_in_flight", "determinism")
    def source_events_tagged_in_flight(seed, params):
        """Source-generated requests pass a tagger that adds a client id to SOME of them with add_context()
        before an IPHash load balancer: what one request carries must not leak into the others (nor into the
        next simulation of the process)."""
        from happysimulator.components.load_balancer import LoadBalancer
        from happysimulator.components.load_balancer.strategies import IPHash
        from happysimulator.core.temporal import Instant
        from happysimulator.load.source import Source

        rng = random.Random(seed)

        class Backend(Entity):
            def __init__(self, name):
                super().__init__(name)
                self.got = 0
                self.ids = []

            def handle_event(self, event):
                self.got += 1
                self.ids.append(event.get_context("client_id"))
                return None

        backends = [Backend(f"backend-{i}") for i in range(3)]
        lb = LoadBalancer("lb", strategy=IPHash())
        for b in backends:
            lb.add_backend(b)
        first_tag = rng.choice([4, 7])
        n_clients = rng.choice([3, 5])

        class Tagger(Entity):
            def __init__(self):
                super().__init__("tagger")
                self.n = 0

            def handle_event(self, event):
                self.n += 1
                if self.n >= first_tag and self.n % 3 == 0:
                    event.add_context("client_id", f"client-{(self.n * 7) % n_clients}")
                return [self.forward(event, lb)]

        tagger = Tagger()
        src = Source.constant(rate=20.0, target=tagger, event_type="Request", stop_after=Instant.from_seconds(2.0), name="src")
        sim = make_sim([tagger, lb, *backends], 3.0, sources=[src])
        return Scenario(sim, {"tagger": tagger, "lb": lb, **{b.name: b for b in backends}}, "determinism", True, 40)



if "determinism.pause_build_elsewhere_resume" not in CATALOGUE:

    @scenario("determinism.pause_build_elsewhere_resume", "determinism")
    def pause_build_elsewhere_resume(seed, params):
        """The run is paused through the control surface; while it is paused the user creates an event (handed to
        an entity that emits it later) and - in the interpreter that also builds unrelated simulations - constructs
        another, larger Simulation; then the run is resumed.  Same-instant order after the resume must not depend
        on what else was built in the process meanwhile."""
        import os

        from happysimulator.core.entity import Entity as _E
        from happysimulator.core.simulation import Simulation
        from happysimulator.core.temporal import Instant

        rng = random.Random(seed)
        tie_ns = rng.choice([2_000_000_000, 3_000_000_000])

        class Emitter(Entity):
            def __init__(self):
                super().__init__("emitter")
                self.stash = []
                self.journal = []

            def handle_event(self, event):
                self.journal.append([self.now.nanoseconds, event.event_type, event.context.get("metadata", {}).get("tag")])
                out = []
                if event.event_type == "Trigger":
                    out += self.stash  # the event made while paused is emitted now, by an entity
                    self.stash = []
                    # ... together with events created only now, for the same instant
                    out += [Event(time=Instant(tie_ns), event_type="Fresh", target=self, context={"metadata": {"tag": i}}) for i in range(3)]
                return out

        em = Emitter()
        sim = make_sim([em], 10.0)
        for i in range(6):
            sim.schedule(ev(i * 100_000_000, "Warm", em, tag=i))
        sim.schedule(ev(1_000_000_000, "Trigger", em, tag=0))
        pause_after = rng.choice([2, 4])

        def runner():
            ctl = sim.control
            seen = [0]

            def on_event(e):
                seen[0] += 1
                if seen[0] == pause_after:
                    ctl.pause()

            ctl.on_event(on_event)
            sim.run()
            if ctl.is_paused:
                if os.environ.get("HSVERIF_C03_BYSTANDER"):
                    class B(_E):
                        def handle_event(self, event):
                            return None

                    b = B("elsewhere")
                    other = Simulation(entities=[b], end_time=Instant.from_seconds(5.0))
                    for j in range(300):
                        other.schedule(Event(time=Instant.from_seconds(0.01 * j), event_type="Noise", target=b))
                em.stash.append(Event(time=Instant(tie_ns), event_type="MadeWhilePaused", target=em, context={"metadata": {"tag": 99}}))
                while ctl.is_paused:
                    ctl.resume()

        return Scenario(sim, {"emitter": em}, "determinism", True, 7, extras={"runner": runner})

"""Transaction workloads for C14: real TransactionManager over a real store.

Case (JSON):
  {"store": cfg, "keys": [...], "initial": {key: value},
   "clients": [{"start": s, "txns": [{"think": s, "iso": "ser|si|rc",
                                      "ops": [[think, "r"|"w", key], ...],
                                      "end": "commit"|"abort", "end_think": s}]}]}
"""

from __future__ import annotations

import itertools
import random

from hsverif.c14_harness import (
    Entity,
    Event,
    Instant,
    Simulation,
    build_store,
    gen_btree_cfg,
    gen_keys,
    gen_kv_cfg,
    gen_lsm_cfg,
    gen_think,
)
from hsverif.c14_oracle import explain_serial, external_reads, snapshot_states
from hsverif.core import Result
from hsverif.probe import EngineProbe

from happysimulator.components.storage.transaction_manager import IsolationLevel, TransactionManager

ISO = {
    "ser": IsolationLevel.SERIALIZABLE,
    "si": IsolationLevel.SNAPSHOT_ISOLATION,
    "rc": IsolationLevel.READ_COMMITTED,
}


def gen_txn(rng: random.Random, tier: str) -> dict:
    r = rng.random()
    if r < 0.6:
        cfg = gen_kv_cfg(rng)
        scale = max(cfg["read_latency"], 0.0002)
    elif r < 0.8:
        cfg = gen_lsm_cfg(rng, rng.choice(["size_tiered", "leveled"]), wal=False)
        scale = cfg["sstable_read_latency"]
    else:
        cfg = gen_btree_cfg(rng)
        scale = cfg["page_read_latency"]
    keys = gen_keys(rng, 2, 4)
    initial = {k: (f"init_{k}" if rng.random() < 0.9 else rng.choice([0, "", False])) for k in keys if rng.random() < 0.6}
    iso_mode = rng.choice(["ser", "si", "mixed", "mixed"])
    # lockstep: clients start together and think for 0-8 microseconds only, so that begins, reads and commits of
    # different transactions fall within the manager's own 1-10 microsecond begin / write / commit latencies
    lockstep = rng.random() < 0.35
    if lockstep:
        def think():
            return rng.choice([0.0, 0.0, 1e-6, 3e-6, 8e-6])
    else:
        def think():
            return gen_think(rng, scale)
    n_clients = rng.randint(2, 5)
    clients = []
    for _ in range(n_clients):
        txns = []
        for _ in range(rng.randint(1, 3)):
            tkeys = rng.sample(keys, min(len(keys), rng.randint(2, 3)))
            ops = []
            for _ in range(rng.randint(1, 4)):
                ops.append([think(), rng.choice(["r", "r", "w"]), rng.choice(tkeys)])
                if ops[-1][1] == "w" and rng.random() < 0.1:
                    ops[-1].append(rng.choice([0, 0.0, "", False]))  # falsy values are values
            iso = iso_mode if iso_mode != "mixed" else rng.choices(["ser", "si", "rc"], [0.45, 0.4, 0.15])[0]
            txns.append(
                {
                    "think": think(),
                    "iso": iso,
                    "ops": ops,
                    "end": "abort" if rng.random() < 0.07 else "commit",
                    "end_think": think(),
                }
            )
        clients.append({"start": think() if lockstep else gen_think(rng, 2 * scale), "txns": txns})
    return {"store": cfg, "keys": keys, "initial": initial, "clients": clients}


def gen_txn_long(rng: random.Random, tier: str) -> dict:
    """One or two long-lived transactions (SERIALIZABLE write-skew partner, SNAPSHOT_ISOLATION double reader) stay
    open while 3 ... 4200 short READ_COMMITTED transactions (single blind writes to keys nobody reads) commit; the
    one conflicting short transaction commits early in that window.  KVStore, so a case costs 0.01-0.4 s."""
    cfg = {"engine": "kv", "read_latency": rng.choice([0.0, 0.00005, 0.0002]), "write_latency": 0.001, "delete_latency": None}
    n_fill = rng.choice([3, 40, 1100, 1100, 1300, 2100, 4200, 4200])
    n_fc = rng.randint(2, 5)
    per = -(-n_fill // n_fc)
    # a filler transaction takes 12 us (begin 1 us, write 1 us, commit 10 us); the long ones must outlast all of them
    hold = round(per * 12e-6 * rng.choice([1.1, 1.5]) + 0.0005, 6)
    keys = ["x", "y", "p", "q"]
    initial = {"x": "x0", "y": "y0", "p": "p0", "q": "q0"}
    tiny = lambda: rng.choice([0.0, 0.0, 1e-6, 5e-6, 2e-5])  # noqa: E731

    def tx(iso, ops, think=0.0, end_think=0.0):
        return {"think": think, "iso": iso, "ops": ops, "end": "commit", "end_think": end_think}

    clients = []
    kinds = rng.choice([["ser"], ["si"], ["ser", "si"], ["ser", "si"]])
    early = rng.choice([0.0, 2e-5, 1e-4])  # when the conflicting short transactions start
    if "ser" in kinds:
        a, b = rng.choice([("x", "y"), ("y", "x")])
        # L reads a ... writes b ; E reads b, writes a, commits early  (write skew unless one of them aborts)
        clients.append({"start": tiny(), "txns": [tx("ser", [[0.0, "r", a], [hold, "w", b]], end_think=tiny())]})
        clients.append({"start": early + tiny(), "txns": [tx("ser", [[0.0, "r", b], [tiny(), "w", a]])]})
    if "si" in kinds:
        # L2 reads p ... reads q ; E2 writes p and q atomically, early
        clients.append({"start": tiny(), "txns": [tx("si", [[0.0, "r", "p"], [hold, "r", "q"]], end_think=tiny())]})
        clients.append({"start": early + tiny(), "txns": [tx(rng.choice(["si", "ser", "rc"]), [[0.0, "w", "p"], [tiny(), "w", "q"]])]})
    if rng.random() < 0.4:
        # an unrelated short reader / writer pair late in the window
        clients.append({"start": hold / 2, "txns": [tx(rng.choice(["ser", "si"]), [[0.0, "r", "x"], [tiny(), "r", "p"]])]})
    for j in range(n_fc):
        n = min(per, n_fill - j * per)
        if n <= 0:
            break
        clients.append({"start": 1e-4 + 2e-4 + j * 1e-6, "txns": [tx("rc", [[0.0, "w", f"f{j}"]]) for _ in range(n)]})
    return {"store": cfg, "keys": keys + [f"f{j}" for j in range(n_fc)], "initial": initial, "clients": clients, "n_fill": n_fill}


class TxnClient(Entity):
    def __init__(self, idx, tm, txns, log, ctr):
        super().__init__(f"txclient{idx}")
        self.idx, self.tm, self.txns, self.log, self.ctr = idx, tm, txns, log, ctr

    def handle_event(self, event):
        return self._go()

    def _go(self):
        for ti, t in enumerate(self.txns):
            if t["think"] > 0:
                yield t["think"]
            rec = {
                "id": len(self.log),
                "c": self.idx,
                "i": ti,
                "iso": t["iso"],
                "ops": [],
                "begin_t": self.now.nanoseconds,
                "begin_s": next(self.ctr),
                "outcome": "unfinished",
                "commit_s": None,
                "commit_t": None,
            }
            self.log.append(rec)
            tx = yield from self.tm.begin(ISO[t["iso"]])
            for oi, (think, kind, key, *explicit) in enumerate(t["ops"]):
                if think > 0:
                    yield think
                if kind == "r":
                    s0, t0 = next(self.ctr), self.now.nanoseconds
                    v = yield from tx.read(key)
                    rec["ops"].append(["r", key, v, s0, next(self.ctr), t0, self.now.nanoseconds])
                else:
                    val = explicit[0] if explicit else f"t{self.idx}_{ti}_{oi}"
                    yield from tx.write(key, val)
                    rec["ops"].append(["w", key, val])
            if t["end_think"] > 0:
                yield t["end_think"]
            if t["end"] == "abort":
                tx.abort()
                rec["outcome"] = "user-abort"
                continue
            rec["commit_s"] = next(self.ctr)
            rec["commit_t"] = self.now.nanoseconds
            ok = yield from tx.commit()
            rec["end_t"] = self.now.nanoseconds
            rec["outcome"] = "committed" if ok else "aborted"


def run_txn(case: dict) -> Result:
    res = Result()
    store, _ = build_store(case["store"])
    for k, v in case["initial"].items():
        store.put_sync(k, v)
    tm = TransactionManager("tm", store)
    log: list[dict] = []
    ctr = itertools.count(1)
    clients = [TxnClient(i, tm, cl["txns"], log, ctr) for i, cl in enumerate(case["clients"])]
    sim = Simulation(entities=[store, tm, *clients])
    for cl, spec in zip(clients, case["clients"]):
        sim.schedule(Event(time=Instant.from_seconds(spec["start"]), event_type="go", target=cl))
    with EngineProbe(log_deliveries=False, instant_cap=20000, total_cap=100_000, record_emissions=False) as p:
        status = p.run(sim)
    res.count("events_monitored", p.n_deliveries)
    if status != "completed":
        res.inconclusive = f"run status {status}"
        return res
    if any(t["outcome"] == "unfinished" for t in log):
        res.inconclusive = "a transaction never finished"
        return res

    engine = case["store"]["engine"]
    committed = sorted((t for t in log if t["outcome"] == "committed"), key=lambda t: t["commit_s"])
    order = [t["id"] for t in committed]
    by_id = {t["id"]: t for t in committed}
    res.count("txns_committed", len(committed))
    res.count("txns_aborted_by_validation", sum(t["outcome"] == "aborted" for t in log))
    initial = dict(case["initial"])

    # ---- SERIALIZABLE: some serial order explains every read of the committed SERIALIZABLE transactions
    ser = [t for t in committed if t["iso"] == "ser"]
    if ser:
        # Transactions whose reads are not judged and whose writes touch no key that a judged transaction reads cannot
        # influence any expected read value: leaving them out of the order search changes nothing (and keeps the
        # search tractable when a long transaction overlaps thousands of blind writers).
        judged_keys = {o[1] for t in ser for o in t["ops"] if o[0] == "r"}
        relevant = [t for t in committed if t["iso"] == "ser" or any(o[0] == "w" and o[1] in judged_keys for o in t["ops"])]
        model_txns = [{"id": t["id"], "check": t["iso"] == "ser", "ops": [tuple(o[:3]) for o in t["ops"]]} for t in relevant]
        found, exhausted, commit_order_ok = explain_serial(model_txns, initial, [t["id"] for t in relevant])
        res.count("txn_serial_checks")
        if not commit_order_ok:
            res.count("txn_serial_needed_search")
        if exhausted:
            res.inconclusive = "serial-order search budget exhausted"
        elif found is None:
            shape, first = _serial_shape(committed, initial)
            res.add(
                "no-serial-order-explains-reads",
                "TransactionManager",
                f"store-{engine}-{shape}",
                f"{len(committed)} committed transactions ({len(ser)} SERIALIZABLE); no serial order explains their reads; "
                f"first disagreement in commit order: {first}",
                {"committed": committed},
            )

    # ---- snapshot isolation: external reads equal one committed state
    states = None
    for t in committed:
        if t["iso"] != "si":
            continue
        ext = external_reads(t)
        if not ext:
            continue
        res.count("txn_si_checks")
        if states is None:
            states = snapshot_states(by_id, initial, order)
        if any(all(s.get(o[1]) == o[2] for o in ext) for s in states):
            continue
        res.add(
            "si-reads-not-from-one-snapshot",
            "TransactionManager",
            _si_shape(t, ext, committed, engine),
            f"SI transaction {t['id']} (client {t['c']}) read {[(o[1], o[2]) for o in ext]}: no committed state S_0..S_{len(order)} has all these values",
            {"txn": t, "commit_order": order, "states": states},
        )

    # ---- long-lived transactions: how many other commits fell between begin and commit
    import bisect

    cs = [t["commit_s"] for t in committed]
    for t in log:
        if t["commit_s"] is None:
            continue
        n_between = bisect.bisect_left(cs, t["commit_s"]) - bisect.bisect_right(cs, t["begin_s"])
        if n_between >= 1024 and t["iso"] in ("ser", "si"):
            res.count("txns_open_across_1024_or_more_commits")
        if n_between >= 4096 and t["iso"] in ("ser", "si"):
            res.count("txns_open_across_4096_or_more_commits")

    # ---- non-triviality
    def keyset(t):
        return {o[1] for o in t["ops"]}

    for i, a in enumerate(committed):
        for b in committed[i + 1 :]:
            if a["begin_s"] < b["commit_s"] and b["begin_s"] < a["commit_s"] and keyset(a) & keyset(b):
                res.nontrivial = True
                break
        if res.nontrivial:
            break
    return res


def _si_shape(t: dict, ext: list, committed: list[dict], engine: str) -> str:
    """Structural precondition: did a foreign commit that wrote one of the keys read fall between the
    transaction's begin and the end of its last external read?"""
    last_end = max(o[4] for o in ext)
    rkeys = {o[1] for o in ext}
    for x in committed:
        if x["id"] == t["id"]:
            continue
        if t["begin_s"] < x["commit_s"] < last_end and rkeys & {o[1] for o in x["ops"] if o[0] == "w"}:
            return "foreign-commit-to-read-key-between-begin-and-last-read"
    return f"no-foreign-commit-during-reads-store-{engine}"


def _serial_shape(committed: list[dict], initial: dict) -> tuple[str, str]:
    """In commit order, locate the first SERIALIZABLE read that disagrees and say how."""
    state = dict(initial)
    writer_commit = {}  # value -> commit_s of its writer
    for t in committed:
        own = {}
        for o in t["ops"]:
            if o[0] == "w":
                own[o[1]] = o[2]
            elif t["iso"] == "ser":
                exp = own[o[1]] if o[1] in own else state.get(o[1])
                if exp != o[2]:
                    first = f"transaction {t['id']} (client {t['c']}) read {o[1]!r} = {o[2]!r}, committed state had {exp!r}"
                    if o[2] is None or o[2] in initial.values() or writer_commit.get(o[2], 10**18) < t["begin_s"]:
                        return "read-older-than-state-at-begin", first
                    if o[2] in writer_commit:
                        return "read-saw-commit-after-begin", first
                    return "read-saw-later-or-unknown-value", first
        for k, v in own.items():
            state[k] = v
            writer_commit[v] = t["commit_s"]
    return "commit-order-explains-but-search-failed", "-"

"""C08 layer (a): queue policies against exact reference models.

Everything here works on *ids*: the harness pushes uniquely tagged items into
the real policy object and tells a `PolicyAudit` what the policy answered.
The audit owns

  * an exact reference model where the policy's order is documented
    (FIFO, LIFO, stable priority, earliest-deadline-first with expiry,
    round-robin over flows, weighted round-robin, adaptive LIFO, deterministic
    balking), and
  * model-free accounting for every policy (capacity, no phantom / duplicate
    pop, enqueued = dequeued + dropped + held, stats counters, is_empty).

The same audit is fed by `RecordingPolicy` (a transparent QueuePolicy wrapper)
inside real simulations, so the pipeline layer checks the policy clause on the
push/pop sequence the engine actually produced.
"""

from __future__ import annotations

import random
from typing import Any

from hsverif.core import ensure_repo_on_path

ensure_repo_on_path()

from happysimulator.components.industrial.balking import BalkingQueue  # noqa: E402
from happysimulator.components.queue_policies import (  # noqa: E402
    AdaptiveLIFO,
    CoDelQueue,
    DeadlineQueue,
    FairQueue,
    REDQueue,
    WeightedFairQueue,
)
from happysimulator.components.queue_policy import FIFOQueue, LIFOQueue, PriorityQueue, QueuePolicy  # noqa: E402
from happysimulator.core.temporal import Instant  # noqa: E402

INF = float("inf")

EXACT_KINDS = ("fifo", "lifo", "prio", "deadline", "fair", "wfq", "alifo")
ALL_KINDS = EXACT_KINDS + ("codel", "red", "balking")


# --------------------------------------------------------------------------
# attribute access shared by layer (a) items and pipeline events


class Item:
    """Layer (a) payload: a tagged value with the attributes policies look at."""

    __slots__ = ("deadline", "flow", "iid", "priority")

    def __init__(self, iid, priority=0.0, deadline_ns=0, flow="f0"):
        self.iid = iid
        self.priority = priority
        self.deadline = Instant(deadline_ns)
        self.flow = flow

    def __repr__(self):
        return f"Item({self.iid})"


def attrs_of(obj) -> dict:
    """(id, prio, deadline_ns, flow) of an Item or of a tagged Event."""
    if isinstance(obj, Item):
        return {"id": obj.iid, "prio": obj.priority, "dl": obj.deadline.nanoseconds, "flow": obj.flow}
    md = obj.context.get("metadata", {})
    return {"id": md.get("id"), "prio": md.get("prio", 0.0), "dl": md.get("dl", 0), "flow": md.get("flow", "f0")}


def _prio_of(obj) -> float:
    return attrs_of(obj)["prio"]


def _deadline_of(obj) -> Instant:
    return Instant(attrs_of(obj)["dl"])


def _flow_of(obj) -> str:
    return attrs_of(obj)["flow"]


class _EvPrio:
    """Mixin-free helper: PriorityQueue(key=None) needs `.priority` on the item."""


def build_policy(spec: dict, clock_func) -> QueuePolicy:
    """Real policy object from a JSON spec.  clock_func() -> Instant."""
    k = spec["kind"]
    cap = spec.get("cap")
    fcap = INF if cap is None else cap
    if k == "fifo":
        return FIFOQueue(capacity=fcap)
    if k == "lifo":
        return LIFOQueue(capacity=fcap)
    if k == "prio":
        if spec.get("keymode", "key") == "key":
            return PriorityQueue(capacity=fcap, key=_prio_of)
        return PriorityQueue(capacity=fcap)  # Prioritized protocol (.priority), layer (a) Items only
    if k == "deadline":
        return DeadlineQueue(get_deadline=_deadline_of, capacity=cap, clock_func=clock_func if spec.get("clock", True) else None)
    if k == "fair":
        return FairQueue(get_flow_id=_flow_of, max_flows=spec.get("max_flows"), per_flow_capacity=spec.get("per_flow_cap"))
    if k == "wfq":
        weights = spec.get("weights", {})
        return WeightedFairQueue(
            get_flow_id=_flow_of,
            get_weight=lambda f: weights.get(f, 1),
            capacity=cap,
            per_flow_capacity=spec.get("per_flow_cap"),
        )
    if k == "alifo":
        return AdaptiveLIFO(congestion_threshold=spec["threshold"], capacity=cap)
    if k == "codel":
        return CoDelQueue(target_delay=spec["target"], interval=spec["interval"], capacity=cap, clock_func=clock_func)
    if k == "red":
        return REDQueue(
            min_threshold=spec["min_th"],
            max_threshold=spec["max_th"],
            max_probability=spec["max_p"],
            capacity=cap,
            weight=spec.get("weight", 0.002),
        )
    if k == "balking":
        inner = build_policy(spec["inner"], clock_func)
        return BalkingQueue(inner, balk_threshold=spec["threshold"], balk_probability=spec["prob"])
    raise KeyError(k)


def class_name(spec: dict) -> str:
    return {
        "fifo": "FIFOQueue",
        "lifo": "LIFOQueue",
        "prio": "PriorityQueue",
        "deadline": "DeadlineQueue",
        "fair": "FairQueue",
        "wfq": "WeightedFairQueue",
        "alifo": "AdaptiveLIFO",
        "codel": "CoDelQueue",
        "red": "REDQueue",
        "balking": "BalkingQueue",
    }[spec["kind"]]


def capacity_of(spec: dict) -> float:
    k = spec["kind"]
    if k == "fair":
        mf, pf = spec.get("max_flows"), spec.get("per_flow_cap")
        if mf is None:
            return INF
        return mf * (pf if pf else INF)
    if k == "red":
        return spec["cap"] if spec.get("cap") is not None else spec["max_th"] * 2
    if k == "balking":
        return capacity_of(spec["inner"])
    c = spec.get("cap")
    return INF if c is None else c


# --------------------------------------------------------------------------
# reference models (ids only)


class _Model:
    exact = True

    def __init__(self, spec):
        self.spec = spec
        self.cap = capacity_of(spec)
        self.expired = 0  # items the model dropped by itself (deadline expiry)

    def __len__(self):
        raise NotImplementedError

    # push returns True/False (prediction); pop/peek return id or None
    def push(self, a: dict, now_ns) -> bool:
        raise NotImplementedError

    def pop(self, now_ns):
        raise NotImplementedError

    def peek(self, now_ns):
        raise NotImplementedError

    def held_ids(self) -> list:
        raise NotImplementedError


class _ListModel(_Model):
    def __init__(self, spec):
        super().__init__(spec)
        self.items: list = []  # (seq, attrs)
        self.seq = 0

    def __len__(self):
        return len(self.items)

    def held_ids(self):
        return [a["id"] for _, a in self.items]

    def push(self, a, now_ns):
        if len(self.items) >= self.cap:
            return False
        self.items.append((self.seq, a))
        self.seq += 1
        return True

    def _pick(self, now_ns):
        raise NotImplementedError

    def pop(self, now_ns):
        i = self._pick(now_ns)
        if i is None:
            return None
        return self.items.pop(i)[1]["id"]

    def peek(self, now_ns):
        i = self._pick(now_ns)
        return None if i is None else self.items[i][1]["id"]


class FifoModel(_ListModel):
    def _pick(self, now_ns):
        return 0 if self.items else None


class LifoModel(_ListModel):
    def _pick(self, now_ns):
        return len(self.items) - 1 if self.items else None


class PrioModel(_ListModel):
    def _pick(self, now_ns):
        if not self.items:
            return None
        return min(range(len(self.items)), key=lambda i: (self.items[i][1]["prio"], self.items[i][0]))


class AlifoModel(_ListModel):
    def _pick(self, now_ns):
        if not self.items:
            return None
        return len(self.items) - 1 if len(self.items) >= self.spec["threshold"] else 0


class DeadlineModel(_ListModel):
    """Earliest deadline first, ties by arrival; deadline < now is expired and dropped at pop."""

    def _clocked(self):
        return self.spec.get("clock", True)

    def pop(self, now_ns):
        while self.items:
            i = min(range(len(self.items)), key=lambda j: (self.items[j][1]["dl"], self.items[j][0]))
            _, a = self.items.pop(i)
            if self._clocked() and a["dl"] < now_ns:
                self.expired += 1
                continue
            return a["id"]
        return None

    def peek(self, now_ns):
        live = [(a["dl"], s, a["id"]) for s, a in self.items if not self._clocked() or a["dl"] >= now_ns]
        return min(live)[2] if live else None

    def purge(self, now_ns) -> int:
        if not self._clocked():
            return 0
        keep = [(s, a) for s, a in self.items if a["dl"] >= now_ns]
        n = len(self.items) - len(keep)
        self.items = keep
        self.expired += n
        return n

    def n_expired_held(self, now_ns) -> int:
        if not self._clocked():
            return 0
        return sum(1 for _, a in self.items if a["dl"] < now_ns)


class FairModel(_Model):
    """Round-robin over flows in order of (re)activation; one item per turn."""

    def __init__(self, spec):
        super().__init__(spec)
        self.order: list[str] = []
        self.q: dict[str, list] = {}

    def __len__(self):
        return sum(len(v) for v in self.q.values())

    def held_ids(self):
        return [a["id"] for f in self.order for a in self.q[f]]

    def push(self, a, now_ns):
        f = a["flow"]
        mf, pf = self.spec.get("max_flows"), self.spec.get("per_flow_cap")
        if f not in self.q:
            if mf is not None and len(self.order) >= mf:
                return False
            self.q[f] = []
            self.order.append(f)
        if pf is not None and len(self.q[f]) >= pf:
            return False
        self.q[f].append(a)
        return True

    def pop(self, now_ns):
        if not self.order:
            return None
        f = self.order.pop(0)
        a = self.q[f].pop(0)
        if self.q[f]:
            self.order.append(f)
        else:
            del self.q[f]
        return a["id"]

    def peek(self, now_ns):
        return self.q[self.order[0]][0]["id"] if self.order else None


class WfqModel(_Model):
    """Weighted round-robin: a flow is served `weight` items per turn, then goes to the back."""

    def __init__(self, spec):
        super().__init__(spec)
        self.order: list[str] = []
        self.q: dict[str, list] = {}
        self.credits: dict[str, int] = {}

    def _w(self, f):
        return max(1, self.spec.get("weights", {}).get(f, 1))

    def __len__(self):
        return sum(len(v) for v in self.q.values())

    def held_ids(self):
        return [a["id"] for f in self.order for a in self.q[f]]

    def push(self, a, now_ns):
        if len(self) >= self.cap:
            return False
        f = a["flow"]
        pf = self.spec.get("per_flow_cap")
        if f not in self.q:
            self.q[f] = []
            self.order.append(f)
            self.credits[f] = self._w(f)
        if pf is not None and len(self.q[f]) >= pf:
            return False
        self.q[f].append(a)
        return True

    def pop(self, now_ns):
        if not self.order:
            return None
        f = self.order[0]
        a = self.q[f].pop(0)
        self.credits[f] -= 1
        if self.credits[f] <= 0:
            self.order.pop(0)
            self.order.append(f)
            self.credits[f] = self._w(f)
        if not self.q[f]:
            self.order.remove(f)
            del self.q[f], self.credits[f]
        return a["id"]

    def peek(self, now_ns):
        return self.q[self.order[0]][0]["id"] if self.order else None


class BalkModel(_Model):
    """Deterministic balking (probability 0 or 1) in front of an exact inner model."""

    def __init__(self, spec):
        super().__init__(spec)
        self.inner = make_model(spec["inner"])
        self.exact = self.inner is not None and self.inner.exact and spec["prob"] in (0.0, 1.0, 0, 1)
        self.balked = 0

    def __len__(self):
        return len(self.inner)

    def held_ids(self):
        return self.inner.held_ids()

    def push(self, a, now_ns):
        if len(self.inner) >= self.spec["threshold"] and self.spec["prob"] >= 1.0:
            self.balked += 1
            return False
        return self.inner.push(a, now_ns)

    def pop(self, now_ns):
        return self.inner.pop(now_ns)

    def peek(self, now_ns):
        return self.inner.peek(now_ns)


def make_model(spec: dict) -> _Model | None:
    k = spec["kind"]
    cls = {
        "fifo": FifoModel,
        "lifo": LifoModel,
        "prio": PrioModel,
        "alifo": AlifoModel,
        "deadline": DeadlineModel,
        "fair": FairModel,
        "wfq": WfqModel,
        "balking": BalkModel,
    }.get(k)
    if cls is None:
        return None
    m = cls(spec)
    return m if m.exact else None


# --------------------------------------------------------------------------
# the audit


class PolicyAudit:
    """Judges one real policy object from the answers it gives.

    violations: list of (oracle, shape, detail)
    """

    def __init__(self, spec: dict, policy: QueuePolicy):
        self.spec = spec
        self.kind = spec["kind"]
        self.policy = policy
        self.comp = class_name(spec)
        self.model = make_model(spec)
        self.cap = capacity_of(spec)
        self.violations: list[tuple[str, str, str]] = []
        self.accepted: dict[Any, int] = {}  # id -> push sequence number
        self.popped: set = set()
        self.n_push = 0
        self.n_rejected = 0
        self.n_accepted = 0
        self.n_popped = 0
        self.n_pop_none_nonempty = 0
        self.last_pop_seq = -1
        self.ops = 0
        self.max_len = 0
        self.saw_full = False
        self.saw_expiry = False
        self.saw_internal_drop = False
        self.saw_order_choice = False  # a pop that had >= 2 held items to choose from
        self._model_ok = True  # stop comparing after the first divergence (one root cause, one report)
        self._reported: set = set()
        self.order_comp = None  # set when an order/peek violation belongs to the inner policy of a BalkingQueue

    # ---- helpers
    def _v(self, oracle, shape, detail):
        if self.kind == "balking" and oracle in ("order", "peek"):
            # BalkingQueue.pop / .peek only delegate: the order is the inner policy's
            detail = f"(through BalkingQueue) {detail}"
            self.order_comp = class_name(self.spec["inner"])
        key = (oracle, shape)
        if key in self._reported:
            return
        self._reported.add(key)
        self.violations.append((oracle, shape, detail))

    def internal_dropped(self) -> int:
        """Items the policy itself discarded after accepting them (counted by its stats)."""
        p = self.policy
        if self.kind == "deadline":
            return p.stats.expired
        if self.kind == "codel":
            return p.stats.dropped
        if self.kind == "balking":
            inner = p.inner
            st = getattr(inner, "stats", None)
            return getattr(st, "expired", 0) + getattr(st, "dropped", 0) if st is not None and self.spec["inner"]["kind"] in ("deadline", "codel") else 0
        return 0

    def _ctx(self, now_ns) -> str:
        """Structural context for shapes (never ids / values)."""
        m = self.model.inner if isinstance(self.model, BalkModel) else self.model
        if isinstance(m, DeadlineModel):
            return "with-expired-items" if m.n_expired_held(now_ns) else "no-expired-items"
        if self.kind in ("fair", "wfq"):
            return "multi-flow" if self.model is not None and len(self.model.order) > 1 else "single-flow"
        return "plain"

    def _common(self, what: str, now_ns):
        p = self.policy
        n = len(p)
        self.ops += 1
        if n > self.max_len:
            self.max_len = n
        if n >= self.cap:
            self.saw_full = True
        if n > self.cap:
            self._v("capacity", f"holds-more-than-capacity-after-{what}", f"len={n} capacity={self.cap}")
        if p.is_empty() != (n == 0):
            self._v("is-empty", f"is_empty-disagrees-with-len-after-{what}", f"is_empty={p.is_empty()} len={n}")
        dropped = self.internal_dropped()
        if dropped:
            self.saw_internal_drop = True
        if self.n_accepted != self.n_popped + dropped + n:
            self._v(
                "conservation",
                f"enqueued-ne-dequeued+dropped+held-after-{what}",
                f"accepted={self.n_accepted} popped={self.n_popped} dropped={dropped} held={n}",
            )
        if self.model is not None and self._model_ok and len(self.model) != n:
            self._model_ok = False
            self._v("conservation", f"held-count-differs-from-model-after-{what}", f"len={n} model={len(self.model)}")
        st = getattr(p, "stats", None)
        if st is not None and self.kind != "balking":
            enq = getattr(st, "enqueued", None)
            if enq is not None and enq != self.n_accepted:
                self._v("stats", "enqueued-counter", f"stats.enqueued={enq} accepted pushes={self.n_accepted}")
            deq = getattr(st, "dequeued", None)
            if deq is None and self.kind == "alifo":
                deq = st.dequeued_fifo + st.dequeued_lifo
            if deq is not None and deq != self.n_popped:
                self._v("stats", "dequeued-counter", f"stats.dequeued={deq} non-empty pops={self.n_popped}")
            rej = None
            if self.kind in ("deadline", "codel", "alifo"):
                rej = st.capacity_rejected
            elif self.kind == "wfq":
                rej = st.rejected_capacity
            elif self.kind == "fair":
                rej = st.rejected_flow_capacity + st.rejected_max_flows
            elif self.kind == "red":
                rej = st.capacity_rejected + st.dropped_forced + st.dropped_probabilistic
            if rej is not None and rej != self.n_rejected:
                self._v("stats", "rejected-counter", f"stats rejected={rej} refused pushes={self.n_rejected}")
        if self.kind == "balking":
            inner_rej = self.n_rejected - p.balked
            if inner_rej < 0:
                self._v("stats", "balked-counter", f"balked={p.balked} refused pushes={self.n_rejected}")

    # ---- observations
    def on_push(self, a: dict, accepted: bool, len_before: int, now_ns):
        self.n_push += 1
        iid = a["id"]
        n = len(self.policy)
        if accepted:
            if iid in self.accepted:
                self._v("harness", "id-pushed-twice", str(iid))
            self.accepted[iid] = self.n_push
            self.n_accepted += 1
            if n != len_before + 1:
                self._v("conservation", "accepted-push-did-not-grow-by-one", f"len {len_before}->{n}")
        else:
            self.n_rejected += 1
            if n != len_before:
                self._v("conservation", "refused-push-changed-length", f"len {len_before}->{n}")
        if self.model is not None and self._model_ok:
            want = self.model.push(a, now_ns)
            if want != accepted:
                self._model_ok = False
                full = len_before >= self.cap
                self._v(
                    "accept",
                    ("refused-below-capacity" if not accepted else "accepted-beyond-model") + ("-at-capacity" if full else ""),
                    f"push of id {iid} returned {accepted}, model says {want}; len_before={len_before} cap={self.cap}",
                )
        self._common("push", now_ns)

    def on_pop(self, iid, len_before: int, now_ns):
        ctx = self._ctx(now_ns)
        n = len(self.policy)
        if iid is None:
            if len_before > 0:
                self.n_pop_none_nonempty += 1
                if self.kind not in ("deadline", "balking") or (self.kind == "balking" and self.spec["inner"]["kind"] != "deadline"):
                    self._v("order", "pop-none-while-nonempty", f"len_before={len_before}")
        else:
            if iid not in self.accepted:
                self._v("conservation", "popped-item-never-accepted", str(iid))
            elif iid in self.popped:
                self._v("conservation", "item-popped-twice", str(iid))
            self.popped.add(iid)
            self.n_popped += 1
            if len_before >= 2:
                self.saw_order_choice = True
            if n > len_before - 1:
                self._v("conservation", "pop-did-not-shrink", f"len {len_before}->{n}")
            if n < len_before - 1 and self.kind not in ("deadline", "codel", "balking"):
                self._v("conservation", "pop-removed-more-than-one", f"len {len_before}->{n}")
            if self.kind in ("codel", "red") and iid in self.accepted:
                s = self.accepted[iid]
                if s < self.last_pop_seq:
                    self._v("order", "fifo-subsequence-broken", f"id {iid} (push #{s}) after push #{self.last_pop_seq}")
                self.last_pop_seq = max(self.last_pop_seq, s)
        if self.model is not None and self._model_ok:
            exp_before = self.model.expired
            want = self.model.pop(now_ns)
            if self.model.expired != exp_before:
                self.saw_expiry = True
            if want != iid:
                self._model_ok = False
                self._v("order", f"pop-differs-from-model-{ctx}", f"pop returned {iid}, policy order says {want} (len_before={len_before})")
        self._common("pop", now_ns)

    def on_peek(self, iid, now_ns):
        if self.model is not None and self._model_ok:
            want = self.model.peek(now_ns)
            if want != iid:
                self._v("peek", f"peek-differs-from-next-pop-{self._ctx(now_ns)}", f"peek returned {iid}, next to leave is {want}")
        elif iid is not None and (iid not in self.accepted or iid in self.popped):
            self._v("peek", "peek-returned-item-not-held", str(iid))
        self._common("peek", now_ns)

    def on_purge(self, removed: int, now_ns):
        if isinstance(self.model, DeadlineModel) and self._model_ok:
            want = self.model.purge(now_ns)
            if want:
                self.saw_expiry = True
            if want != removed:
                self._model_ok = False
                self._v("conservation", "purge-count-differs-from-model", f"purge_expired()={removed} model={want}")
        self._common("purge", now_ns)

    def nontrivial(self) -> bool:
        return self.saw_order_choice and (self.saw_full or self.saw_expiry or self.saw_internal_drop or self.max_len >= 3)


# --------------------------------------------------------------------------
# transparent recording wrapper for use inside real simulations


class RecordingPolicy(QueuePolicy):
    """Delegates every call to the real policy and reports the answers to an audit.

    `listener(kind, id, extra)` is called for push/pop so the pipeline ledger
    sees exactly what entered and left the queue, in engine order.
    """

    def __init__(self, inner: QueuePolicy, audit: PolicyAudit, now_ns_func, listener=None):
        self._inner = inner
        self._audit = audit
        self._now = now_ns_func
        self._listener = listener

    @property
    def inner(self):
        return self._inner

    @property
    def capacity(self) -> float:
        return self._inner.capacity

    def push(self, item) -> bool:
        before = len(self._inner)
        ok = self._inner.push(item)
        a = attrs_of(item)
        now = self._now()
        self._audit.on_push(a, ok, before, now)
        if self._listener is not None:
            self._listener("push", a["id"], ok)
        return ok

    def pop(self):
        before = len(self._inner)
        item = self._inner.pop()
        iid = None if item is None else attrs_of(item)["id"]
        self._audit.on_pop(iid, before, self._now())
        if self._listener is not None:
            self._listener("pop", iid, before)
        return item

    def peek(self):
        return self._inner.peek()

    def is_empty(self) -> bool:
        return self._inner.is_empty()

    def __len__(self) -> int:
        return len(self._inner)


# --------------------------------------------------------------------------
# generation of policy specs and op strings


def gen_spec(rng: random.Random, kinds=ALL_KINDS, for_events: bool = False) -> dict:
    k = rng.choice(kinds)
    cap = rng.choice([None, None, 1, 2, 3, 5, 8])
    if k in ("fifo", "lifo"):
        return {"kind": k, "cap": cap}
    if k == "prio":
        return {"kind": k, "cap": cap, "keymode": "key" if for_events else rng.choice(["key", "attr"])}
    if k == "deadline":
        return {"kind": k, "cap": cap, "clock": rng.random() < 0.9}
    if k == "fair":
        return {"kind": k, "max_flows": rng.choice([None, 1, 2, 3]), "per_flow_cap": rng.choice([None, 1, 2, 4])}
    if k == "wfq":
        return {
            "kind": k,
            "cap": cap,
            "per_flow_cap": rng.choice([None, None, 1, 2, 4]),
            "weights": {f"f{i}": rng.choice([0, 1, 1, 2, 3, 5]) for i in range(4)},
        }
    if k == "alifo":
        th = rng.choice([1, 2, 3, 5])
        return {"kind": k, "cap": cap, "threshold": th}
    if k == "codel":
        return {"kind": k, "cap": cap, "target": rng.choice([0.125, 0.25, 1.0]), "interval": rng.choice([0.25, 0.5, 2.0])}
    if k == "red":
        lo = rng.choice([0, 1, 2])
        hi = lo + rng.choice([1, 2, 4])
        return {
            "kind": k,
            "min_th": lo,
            "max_th": hi,
            "max_p": rng.choice([0.1, 0.5, 1.0]),
            "cap": rng.choice([None, hi, hi + 2]),
            "weight": rng.choice([0.002, 0.2, 0.9]),
        }
    if k == "balking":
        inner = gen_spec(rng, ("fifo", "lifo", "prio", "deadline"), for_events)
        return {"kind": k, "inner": inner, "threshold": rng.choice([0, 1, 2, 4]), "prob": rng.choice([1.0, 1.0, 0.0, 0.5])}
    raise KeyError(k)


def gen_ops(rng: random.Random, n: int) -> list:
    """push / pop / peek / tick / purge strings; time unit = 125 ms (exact in float)."""
    ops = []
    next_id = 0
    t = 0
    bias = rng.choice([0.35, 0.5, 0.65, 0.8])  # push share
    for _ in range(n):
        r = rng.random()
        if r < 0.12:
            dt = rng.choice([0, 1, 1, 2, 4, 8])
            t += dt
            ops.append(["tick", dt])
        elif r < 0.22:
            ops.append(["peek"])
        elif r < 0.25:
            ops.append(["purge"])
        elif rng.random() < bias:
            ops.append(
                [
                    "push",
                    next_id,
                    rng.choice([0, 0, 1, 1, 2, 3, -1, 0.5, 7]),
                    t + rng.choice([-2, -1, 0, 0, 1, 1, 2, 3, 5, 9]),  # deadline in ticks (may already be past)
                    f"f{rng.choice([0, 0, 1, 2, 3])}",
                    rng.choice([0, 0, 0, 1, 2, 3, 5, 8, 24, 40, 100]),  # plus a few ns: distinct deadlines inside one tick
                ]
            )
            next_id += 1
        else:
            ops.append(["pop"])
    # drain tail so order over the whole content is observed
    ops.extend([["pop"]] * rng.choice([0, 3, 10]))
    return ops

"""C19 / Topic fan-out and OutboxRelay -> IdempotencyStore forwarding inside real simulations."""

from __future__ import annotations

import random

from hsverif.core import Result, ensure_repo_on_path

ensure_repo_on_path()

from happysimulator.components.messaging import Topic  # noqa: E402
from happysimulator.components.microservice import IdempotencyStore, OutboxRelay  # noqa: E402
from happysimulator.core.entity import Entity  # noqa: E402
from happysimulator.core.event import Event  # noqa: E402
from happysimulator.core.simulation import Simulation  # noqa: E402
from happysimulator.core.temporal import Duration, Instant  # noqa: E402

from hsverif.probe import EngineProbe  # noqa: E402

MS = 1_000_000


# ==========================================================================
# Topic


def gen_topic(rng: random.Random, tier: str) -> dict:
    n_subs = rng.randint(1, 4)
    latency = rng.choice([0.0, 0.0, 0.001, 0.004, 0.03])
    retain = rng.random() < 0.5
    ops = []
    t = 1
    pid = 0
    for _ in range(rng.choice([3, 6, 12, 25])):
        t += rng.choice([0, 1, 2, 5, 30, 100])
        kind = rng.choices(["pub", "sub", "unsub"], weights=[5, 2, 2])[0]
        if kind == "pub":
            op = {"t": t, "op": "pub", "pid": pid, "mode": rng.choice(["event", "gen", "gen", "sync"])}
            if pid > 0 and rng.random() < 0.15:
                op["same_as"] = rng.randrange(pid)  # the very same payload Event object is published again
            ops.append(op)
            pid += 1
        elif kind == "sub":
            ops.append({"t": t, "op": "sub", "c": rng.randrange(n_subs), "replay": rng.random() < 0.4})
        else:
            ops.append({"t": t, "op": "unsub", "c": rng.randrange(n_subs)})
    names = [f"s{i}" for i in range(n_subs)]
    if n_subs > 1 and rng.random() < 0.3:
        # replicas: distinct subscriber entities that carry the same name
        for i in rng.sample(range(n_subs), rng.randint(2, n_subs)):
            names[i] = "replica"
    return {
        "n_subscribers": n_subs,
        "names": names,
        "initial_subs": [c for c in range(n_subs) if rng.random() < 0.6],
        "latency": latency,
        "retain": retain,
        "max_history": rng.choice([1, 2, 5, 100]),
        "max_subscribers": rng.choice([None, None, 1, 2, 3]),
        "ops": ops,
    }


class _Sub(Entity):
    """Subscriber entity; `uid` is the harness-side identity (the entity object), `name` may be shared with others."""

    def __init__(self, name, log, uid=None):
        super().__init__(name)
        self.log = log
        self.uid = uid or name

    def handle_event(self, event):
        if event.event_type != "topic_message":
            return None
        payload = event.context.get("payload")
        self.log.append(
            {
                "t": self.now.nanoseconds,
                "c": self.uid,
                "pid": payload.context.get("pid") if payload is not None else None,
                "replay": bool(event.context.get("is_replay")),
            }
        )
        return None


class _TopicDriver(Entity):
    def __init__(self, name, ctx):
        super().__init__(name)
        self.ctx = ctx

    def handle_event(self, event):
        ctx = self.ctx
        topic = ctx["topic"]
        op = event.context["op"]
        now = self.now.nanoseconds
        kind = op["op"]
        if kind == "pub":
            pid = op["pid"]
            msg = ctx["payloads"].get(op.get("same_as"))
            if msg is None:
                msg = Event(time=self.now, event_type="payload", target=self, context={"pid": pid})
            else:
                ctx["republished"] = True
            ctx["payloads"][pid] = msg
            pid = msg.context["pid"]  # receipts are identified by the payload; expectations count publish CALLS per payload
            ctx["pubs"].append({"t": now, "pid": pid, "mode": op["mode"]})
            ctx["pub_instants"].add(now)
            if op["mode"] == "event":
                return [Event(time=self.now, event_type="publish", target=topic, context={"payload": msg})]
            if op["mode"] == "sync":
                return topic.publish_sync(msg)
            return self._gen_publish(msg)
        c = ctx["subs"][op["c"]]
        # client-boundary truth: a subscribe() that returned makes this entity an active subscriber,
        # an unsubscribe() makes it inactive - whatever other entities (even of the same name) did
        before = ctx["active"].get(c.uid, False)
        ctx["change_instants"].setdefault(c.uid, set()).add(now)
        if kind == "sub":
            try:
                evs = topic.subscribe(c, replay_history=bool(op.get("replay")))
            except RuntimeError as exc:
                if "max subscribers" not in str(exc):
                    raise
                ctx["res"].count("subscribes_refused")
                return None
            if op.get("replay"):
                ctx["replays"].append({"t": now, "c": c.uid, "n": len(evs)})
            after = True
        else:
            topic.unsubscribe(c)
            evs = None
            after = False
        ctx["active"][c.uid] = after
        if before != after:
            ctx["changes"][c.uid].append((now, after))
            ctx["n_changes"] += 1
        return evs

    def _gen_publish(self, msg):
        evs = yield from self.ctx["topic"].publish(msg)
        return evs


def _active_at(changes, initial, x):
    st = initial
    for t, on in changes:
        if t < x:
            st = on
    return st


def run_topic(case: dict) -> Result:
    res = Result()
    L = float(case["latency"])
    L_ns = Duration.from_seconds(L).nanoseconds
    topic = Topic("topic", delivery_latency=L, max_subscribers=case.get("max_subscribers"))
    if case.get("retain"):
        topic.set_retain_messages(True, max_history=int(case.get("max_history", 100)))
    log = []
    names = case.get("names") or [f"s{i}" for i in range(case["n_subscribers"])]
    subs = [_Sub(names[i], log, uid=f"s{i}") for i in range(case["n_subscribers"])]
    shared_name_uids = {x.uid for x in subs if sum(1 for y in subs if y.name == x.name) > 1}
    ctx = {
        "topic": topic,
        "subs": subs,
        "res": res,
        "pubs": [],
        "payloads": {},
        "pub_instants": set(),
        "changes": {s.uid: [] for s in subs},
        "active": {},
        "change_instants": {},
        "replays": [],
        "n_changes": 0,
    }
    drv = _TopicDriver("drv", ctx)
    initial = set()
    for i in case.get("initial_subs", []):
        if i < len(subs):
            try:
                topic.subscribe(subs[i])
                initial.add(subs[i].uid)
                ctx["active"][subs[i].uid] = True
            except RuntimeError:
                pass
    ops = sorted(case["ops"], key=lambda o: o["t"])
    t_last = ops[-1]["t"] if ops else 1
    end_ms = t_last + int(L * 1000 + 1) * (len(subs) + 2) + 1000
    sim = Simulation(entities=[topic, drv, *subs], end_time=Instant(end_ms * MS))
    for op in ops:
        sim.schedule(Event(time=Instant(op["t"] * MS), event_type="op", target=drv, context={"op": op}))
    with EngineProbe(instant_cap=20000, total_cap=200000) as p:
        status = p.run(sim)
    if status != "completed":
        res.inconclusive = f"run status {status}"
        return res
    res.count("events_monitored", p.n_deliveries)

    got = {}
    for r in log:
        if not r["replay"]:
            got.setdefault((r["pid"], r["c"]), []).append(r["t"])
    discarded = [tt for tt in p.time_travel if tt.get("event_type") == "topic_message"]
    missing = []
    expected_total = 0
    by_label = {}
    for pub in ctx["pubs"]:
        by_label.setdefault(pub["pid"], []).append(pub)
    for label, pubs_l in by_label.items():
        mode_l = "+".join(sorted({q["mode"] for q in pubs_l}))
        for s in subs:
            if any(q["t"] in ctx["change_instants"].get(s.uid, ()) for q in pubs_l):
                res.count("ties_skipped")
                continue
            want = sum(1 for q in pubs_l if _active_at(ctx["changes"][s.uid], s.uid in initial, q["t"]))
            times = got.get((label, s.uid), [])
            res.count("fanout_pairs_checked", len(pubs_l))
            expected_total += want
            x = min(q["t"] for q in pubs_l)
            if len(times) < want:
                missing.extend([(label, s.uid, mode_l)] * (want - len(times)))
            elif len(times) > want and want > 0:
                res.add(
                    "delivered-more-than-once",
                    "Topic",
                    f"mode={mode_l}",
                    f"payload {label} published {want} times while {s.uid} was active reached it {len(times)} times at {times}",
                )
            elif len(times) > want:
                res.add(
                    "delivered-to-inactive-subscriber",
                    "Topic",
                    f"mode={mode_l}",
                    f"payload {label} published at {[q['t'] for q in pubs_l]}ns reached {s.uid} which was not an active subscriber then",
                )
            if times and min(times) < x:
                res.add("delivered-before-publish", "Topic", f"mode={mode_l}", f"payload {label} at {min(times)} < {x}")
    if missing and any(u in shared_name_uids for _, u, _ in missing) and not discarded:
        lonely = sorted({u for _, u, _ in missing})
        res.add(
            "publish-never-received",
            "Topic",
            "subscriber-entities-share-a-name",
            f"{len(missing)} of {expected_total} (publish, active subscriber) pairs never delivered; subscriber entities {lonely} "
            f"(names {[x.name for x in subs if x.uid in lonely]}) subscribed successfully but got nothing; topic.subscriber_count="
            f"{topic.subscriber_count}, harness counts {sum(1 for v in ctx['active'].values() if v)} active entities",
            {"missing": missing[:6]},
        )
    elif missing:
        modes = sorted({m for _, _, m in missing})
        if L_ns > 0 and len(discarded) >= len(missing) and all(m in ("event", "gen") for m in modes):
            shape = "latency>0/delivery-event-stamped-before-latency-discarded-by-engine"
        elif L_ns > 0:
            shape = "latency>0/not-discarded-by-engine/mode=" + "+".join(modes)
        else:
            shape = "latency=0/mode=" + "+".join(modes)
        res.add(
            "publish-never-received",
            "Topic",
            shape,
            f"{len(missing)} of {expected_total} (message, active subscriber) pairs never delivered, e.g. {missing[:4]}; "
            f"engine discarded {len(discarded)} topic_message events as time travel",
            {"missing": missing[:6], "time_travel": discarded[:2]},
        )

    # replay: a subscriber asking for history gets the retained messages, oldest first
    if case.get("retain"):
        maxh = int(case.get("max_history", 100))
        for rp in ctx["replays"]:
            x = rp["t"]
            if x in ctx["pub_instants"]:
                continue
            earlier = [pub for pub in ctx["pubs"] if pub["t"] < x]
            hist = [pub["pid"] for pub in earlier][-maxh:]
            # publishes issued at one instant reach the topic in an order the harness does not control
            tie_at_cut = len(earlier) > maxh and earlier[-maxh]["t"] == earlier[-maxh - 1]["t"]
            t_of = {pub["pid"]: pub["t"] for pub in ctx["pubs"]}
            seen = [r["pid"] for r in log if r["replay"] and r["c"] == rp["c"] and r["t"] == x]
            n_same = sum(1 for q in ctx["replays"] if q["c"] == rp["c"] and q["t"] == x)
            res.count("replays_checked")
            if n_same != 1 or tie_at_cut:
                continue
            in_time_order = ctx.get("republished") or all(t_of.get(a, -1) <= t_of.get(b, -1) for a, b in zip(seen, seen[1:]))
            if sorted(seen) != sorted(hist) or not in_time_order:
                res.add(
                    "replay-differs-from-retained-history",
                    "Topic",
                    "retain-on",
                    f"{rp['c']} subscribed with replay at {x}ns: got {seen}, retained history {hist}",
                )
    res.count("publishes", len(ctx["pubs"]))
    res.count("subscription_changes", ctx["n_changes"])
    if L_ns > 0:
        res.count("cases_latency_positive")
    else:
        res.count("cases_latency_zero")
    res.nontrivial = ctx["n_changes"] >= 1 and len(ctx["pubs"]) >= 2 and expected_total >= 1
    return res


# ==========================================================================
# OutboxRelay -> (IdempotencyStore) -> sink


def gen_relay(rng: random.Random, tier: str) -> dict:
    n_keys = rng.randint(1, 12)
    writes = []
    t = 1
    for i in range(rng.choice([1, 3, 8, 20, 40])):
        t += rng.choice([0, 0, 1, 5, 30, 150])
        # a retrying producer writes the same business key again
        key = rng.randrange(n_keys) if rng.random() < 0.5 else 1000 + i
        writes.append({"t": t, "key": f"k{key}", "eid": i})
    return {
        "writes": writes,
        "poll_interval": rng.choice([0.01, 0.05, 0.2]),
        "batch_size": rng.choice([1, 2, 5, 100]),
        "relay_latency": rng.choice([0.0, 0.0, 0.001, 0.004]),
        "use_store": rng.random() < 0.7,
        "ttl": rng.choice([0.05, 0.5, 1000.0]),
        "cleanup_interval": rng.choice([0.02, 0.3, 60.0]),
        "service_ms": rng.choice([0, 0, 2, 40]),
        "prime": rng.choice(["prime", "event"]),
    }


class _Sink(Entity):
    def __init__(self, name, log, service):
        super().__init__(name)
        self.log = log
        self.service = service

    def handle_event(self, event):
        payload = event.context.get("payload") or {}
        self.log.append(
            {
                "t": self.now.nanoseconds,
                "type": event.event_type,
                "key": payload.get("key"),
                "eid": payload.get("eid"),
                "entry_id": (event.context.get("metadata") or {}).get("entry_id"),
            }
        )
        if self.service > 0:
            return self._serve()
        return None

    def _serve(self):
        yield self.service


class _Tap(Entity):
    """Transparent recorder placed between the relay and its real downstream."""

    def __init__(self, name, log, nxt):
        super().__init__(name)
        self.log = log
        self.nxt = nxt

    def handle_event(self, event):
        payload = event.context.get("payload") or {}
        self.log.append(
            {
                "t": self.now.nanoseconds,
                "key": payload.get("key"),
                "eid": payload.get("eid"),
                "entry_id": (event.context.get("metadata") or {}).get("entry_id"),
            }
        )
        return [self.forward(event, self.nxt)]


class _Writer(Entity):
    def __init__(self, name, ctx):
        super().__init__(name)
        self.ctx = ctx

    def handle_event(self, event):
        w = event.context["w"]
        ob = self.ctx["outbox"]
        entry_id = ob.write({"key": w["key"], "eid": w["eid"]})
        self.ctx["written"].append({"t": self.now.nanoseconds, "eid": w["eid"], "key": w["key"], "entry_id": entry_id})
        if self.ctx["prime"] == "event":
            return [Event(time=self.now, event_type="kick", target=ob)]
        if not self.ctx["primed"]:
            self.ctx["primed"] = True
            return [ob.prime_poll()]
        return None


def run_relay(case: dict) -> Result:
    res = Result()
    sink_log, tap_log = [], []
    sink = _Sink("sink", sink_log, case["service_ms"] / 1000.0)
    ttl = float(case["ttl"])
    if case["use_store"]:
        store = IdempotencyStore(
            "store",
            target=sink,
            key_extractor=lambda e: (e.context.get("payload") or {}).get("key"),
            ttl=ttl,
            max_entries=10000,
            cleanup_interval=float(case["cleanup_interval"]),
        )
        nxt = store
    else:
        store = None
        nxt = sink
    tap = _Tap("tap", tap_log, nxt)
    RL = float(case["relay_latency"])
    ob = OutboxRelay(
        "outbox", downstream=tap, poll_interval=float(case["poll_interval"]), batch_size=int(case["batch_size"]), relay_latency=RL
    )
    ctx = {"outbox": ob, "written": [], "prime": case["prime"], "primed": False}
    wr = _Writer("writer", ctx)
    writes = sorted(case["writes"], key=lambda w: w["t"])
    t_last = writes[-1]["t"] if writes else 1
    n = len(writes)
    per_poll = float(case["poll_interval"]) + RL * min(int(case["batch_size"]), n + 1)
    end_ms = t_last + int(1000 * (n + 3) * per_poll) + case["service_ms"] * (n + 1) + 500
    ents = [ob, tap, sink, wr] + ([store] if store else [])
    sim = Simulation(entities=ents, end_time=Instant(int(end_ms) * MS))
    for w in writes:
        sim.schedule(Event(time=Instant(w["t"] * MS), event_type="write", target=wr, context={"w": w}))
    with EngineProbe(instant_cap=20000, total_cap=300000) as p:
        status = p.run(sim)
    if status != "completed":
        res.inconclusive = f"run status {status}"
        return res
    res.count("events_monitored", p.n_deliveries)

    # ---- relay: every written entry reaches the downstream exactly once, in entry order
    written = ctx["written"]
    by_entry = {}
    for r in tap_log:
        by_entry.setdefault(r["entry_id"], []).append(r["t"])
    missing = [w["entry_id"] for w in written if w["entry_id"] not in by_entry]
    relayed_marked = ob.stats.entries_relayed
    discarded = [tt for tt in p.time_travel if tt.get("event_type") == "outbox_relay"]
    res.count("entries_checked", len(written))
    if missing:
        unrelayed = ob.pending_count
        if unrelayed >= len(missing):
            res.inconclusive = f"{unrelayed} entries not yet polled at end_time"
        else:
            if RL > 0 and len(discarded) >= len(missing) - unrelayed:
                shape = "relay_latency>0/relay-event-stamped-before-latency-discarded-by-engine"
            elif RL > 0:
                shape = "relay_latency>0/not-discarded-by-engine"
            else:
                shape = "relay_latency=0"
            res.add(
                "relayed-entry-never-received",
                "OutboxRelay",
                shape,
                f"{len(missing)} of {len(written)} written entries never reached the downstream although the relay marked "
                f"{relayed_marked} as relayed; engine discarded {len(discarded)} outbox_relay events as time travel",
                {"missing_entry_ids": missing[:8], "time_travel": discarded[:2]},
            )
    for eid, times in by_entry.items():
        if len(times) > 1:
            res.add("entry-relayed-twice", "OutboxRelay", "single-relay", f"entry {eid} relayed at {times}")
    order = [r["entry_id"] for r in tap_log]
    if order != sorted(order):
        res.add("relay-order", "OutboxRelay", "entry-id-order", f"downstream saw entry ids {order[:20]}")

    # ---- idempotency store: a key is forwarded once while the store must remember it
    if store is not None and not missing:
        arrivals = {}
        for r in tap_log:
            arrivals.setdefault(r["key"], []).append(r["t"])
        fw = {}
        for r in sink_log:
            fw.setdefault(r["key"], []).append(r["t"])
        svc_ns = Duration.from_seconds(case["service_ms"] / 1000.0).nanoseconds
        ttl_ns = Duration.from_seconds(ttl).nanoseconds
        for key, arr in arrivals.items():
            res.count("keys_checked")
            f = fw.get(key, [])
            if not f:
                res.add("key-never-forwarded", "IdempotencyStore", "first-request", f"key {key} arrived at {arr} never reached the sink")
                continue
            if f[0] != arr[0]:
                res.add("first-request-not-forwarded-at-once", "IdempotencyStore", "first-request", f"key {key}: arrival {arr[0]} forward {f[0]}")
            for a, b in zip(f, f[1:]):
                done = a + svc_ns
                if b < done + ttl_ns:
                    res.add(
                        "duplicate-forwarded-within-ttl",
                        "IdempotencyStore",
                        "in-flight" if b < done else "cached",
                        f"key {key} forwarded at {a}ns (done {done}ns) and again at {b}ns, ttl {ttl_ns}ns",
                    )
        dup = sum(len(a) - 1 for a in arrivals.values())
        res.count("duplicate_requests", dup)
        res.count("duplicates_suppressed", store.stats.cache_hits)
    if RL > 0:
        res.count("cases_latency_positive")
    else:
        res.count("cases_latency_zero")
    res.nontrivial = len(written) >= 2 and ob.stats.poll_cycles >= 2
    return res

"""Generated *programs* for the engine-level properties (C01, C02, C04) and the two
ways of executing them:

* `run_reference(program)`  - a small interpreter of the DOCUMENTED semantics
  (priority queue on (time, creation order), lazy deletion of cancelled events,
  discard of events stamped before the clock, the three yield forms, futures,
  any_of / all_of, completion hooks, stop at end_time / when no non-daemon event
  is pending);
* `RealRun(program)`        - builds harness `Entity` subclasses whose handlers
  are a pure function of the program and runs them in the real engine.

Both produce the same kind of log, so the oracle is sequence equality.

Program (JSON):
  {"n_ent": 3, "end_ns": null|int,
   "pre":   [evspec + {"t": abs ns, "phase": "before"|"after", "cancel_pre": bool}],
   "sched_order": [indices into pre]          order of sim.schedule() calls
   "table": {"<ent>:<type>": action}}
  evspec  = {"dt": ns (relative to creation instant; pre-run events use "t"), "ent": i, "type": "T2",
             "daemon": bool, "handle": str|null, "hooks": [hook]}
  hook    = {"id": int, "events": [evspec]}
  action  = {"kind": "none"}
          | {"kind": "emit", "events": [evspec], "cancel": [handle], "resolve": [[fname, value]], "style": "list"|"single"|"none"}
          | {"kind": "gen", "body": [stmt], "ret": [evspec], "style": ...}
  stmt    = {"op": "delay", "d": seconds(float|int), "side": [evspec]|null, "side_style": "list"|"single"|"none"}
          | {"op": "await", "f": fexpr}        fexpr = "name" | {"any": [fexpr]} | {"all": [fexpr]}
          | {"op": "resolve", "f": name, "v": value}
          | {"op": "cancel", "h": [handle]}
          | {"op": "sub", "body": [stmt]}      (yield from a nested generator)

Log entries (tuples, JSON-able):
  ("D", clock_ns, event_time_ns, pid)                      delivery of harness event pid
  ("R", clock_ns, proc_pid, stmt_path, received_value)     process resumed after a yield
  ("H", clock_ns, hook_id, time_arg_ns)                    completion hook fired
  ("F", clock_ns, proc_pid)                                generator finished (just before return)
"""

from __future__ import annotations

import heapq
from typing import Any

NS = 1_000_000_000


def delay_ns(d) -> int:
    """Instant + seconds, as documented: truncation of seconds * 1e9."""
    return int(d * NS)


# ==========================================================================
# reference interpreter


class InvalidProgram(Exception):
    """The generated program misuses the API (two processes parked on one future)."""


class _RFuture:
    __slots__ = ("resolved", "value", "parked", "callbacks")

    def __init__(self):
        self.resolved = False
        self.value = None
        self.parked = None  # process record
        self.callbacks = []


class _RProc:
    """A running generator: explicit stack of (body, index) frames."""

    def __init__(self, pid, ent, daemon, hooks, ret, style):
        self.pid = pid
        self.ent = ent
        self.daemon = daemon
        self.hooks = hooks
        self.ret = ret
        self.style = style
        self.frames: list[list] = []  # [body, idx, path_prefix]
        self.last_path = None
        self.parked_ever = False


class Reference:
    def __init__(self, program: dict, exact_overshoot: bool = False, initial_futures: dict | None = None):
        self.p = program
        self._initial_futures = initial_futures or {}
        if program.get("watch"):
            program = {**program, "watch": [dict(w, _fired=False) for w in program["watch"]]}
            self.p = program
        self.n_parked = 0  # processes currently parked on a (named or composite) future
        self.end_ns = program.get("end_ns")
        self.table = program["table"]
        self.heap: list = []
        self.seq = 0  # creation order of everything that sorts (events + continuations)
        self.pid = 0  # creation order of harness events
        self.now = program.get("start_ns", 0)
        self.log: list = []
        self.handles: dict[str, dict] = {}
        self.futures: dict[str, _RFuture] = {}
        self.primary = 0
        self.cancelled_popped = 0
        self.processed = 0
        self.discarded_past = 0
        self.events: dict[int, dict] = {}  # pid -> record
        self.exact_overshoot = exact_overshoot
        self.stop_reason = None
        self.stats: dict[str, int] = {}

    # ---- creation ---------------------------------------------------------
    def _new_event(self, spec: dict, t_ns: int, origin: str) -> dict:
        rec = {
            "kind": "ev",
            "pid": self.pid,
            "seq": self.seq,
            "t": t_ns,
            "ent": spec["ent"],
            "type": spec["type"],
            "daemon": bool(spec.get("daemon")),
            "cancelled": False,
            "hooks": list(spec.get("hooks") or []),
            "origin": origin,
            "created_at": self.now,
        }
        self.pid += 1
        self.seq += 1
        self.events[rec["pid"]] = rec
        h = spec.get("handle")
        if h:
            self.handles[h] = rec
        return rec

    def _push(self, rec):
        heapq.heappush(self.heap, (rec["t"], rec["seq"], id(rec), rec))
        if not rec["daemon"]:
            self.primary += 1

    def _make_events(self, specs, origin) -> list[dict]:
        return [self._new_event(s, self.now + s["dt"], origin) for s in (specs or [])]

    def _cancel(self, handles):
        for h in handles or []:
            rec = self.handles.get(h)
            if rec is not None:
                rec["cancelled"] = True

    # ---- futures ----------------------------------------------------------
    def _fut(self, name) -> _RFuture:
        f = self.futures.get(name)
        if f is None:
            f = self.futures[name] = _RFuture()
            init = self._initial_futures.get(name)
            if init is not None and init[0]:
                # the future object survived an earlier run of the same model and was resolved there
                f.resolved, f.value = True, init[1]
        return f

    def _stat(self, k):
        self.stats[k] = self.stats.get(k, 0) + 1

    def _resolve(self, f: _RFuture, value):
        if f.resolved:
            self._stat("second_resolves")
            return
        f.resolved = True
        f.value = value
        if f.parked is not None:
            if f.callbacks:
                self._stat("resolve_with_waiter_and_combinator")
            self._resume_parked(f)
        cbs, f.callbacks = f.callbacks, []
        for cb in cbs:
            cb(f)

    def _resume_parked(self, f: _RFuture):
        proc = f.parked
        f.parked = None
        self.n_parked -= 1
        cont = {"kind": "cont", "seq": self.seq, "t": self.now, "proc": proc, "send": f.value, "daemon": proc.daemon, "cancelled": False}
        self.seq += 1
        self._push(cont)

    def _add_cb(self, f: _RFuture, cb):
        if f.resolved:
            cb(f)
        else:
            f.callbacks.append(cb)

    def _build_fexpr(self, fx) -> _RFuture:
        if isinstance(fx, str):
            return self._fut(fx)
        if "any" in fx:
            inputs = [self._build_fexpr(x) for x in fx["any"]]
            comp = _RFuture()
            for i, f in enumerate(inputs):
                self._add_cb(f, lambda sf, i=i: self._resolve(comp, [i, sf.value]))
            return comp
        inputs = [self._build_fexpr(x) for x in fx["all"]]
        comp = _RFuture()
        results = [None] * len(inputs)
        state = {"remaining": len(inputs)}

        def on(sf, i):
            if comp.resolved:
                return
            results[i] = sf.value
            state["remaining"] -= 1
            if state["remaining"] == 0:
                self._resolve(comp, list(results))

        for i, f in enumerate(inputs):
            self._add_cb(f, lambda sf, i=i: on(sf, i))
        return comp

    # ---- processes --------------------------------------------------------
    def _advance(self, proc: _RProc, send) -> list[dict]:
        """Run the generator until its next yield. Returns events to push (side effects + continuation)."""
        if proc.last_path is not None:
            self.log.append(("R", self.now, proc.pid, proc.last_path, send))
        while proc.frames:
            body, idx, prefix = proc.frames[-1]
            if idx >= len(body):
                proc.frames.pop()
                continue
            stmt = body[idx]
            proc.frames[-1][1] = idx + 1
            path = f"{prefix}{idx}"
            op = stmt["op"]
            if op == "resolve":
                self._resolve(self._fut(stmt["f"]), stmt["v"])
            elif op == "cancel":
                self._cancel(stmt["h"])
            elif op == "add_hook":
                proc.hooks.append(stmt["hook"])
                self._stat("hooks_added_in_flight")
            elif op == "sub":
                proc.frames.append([stmt["body"], 0, path + "."])
            elif op == "delay":
                side = self._make_events(stmt.get("side"), "side")
                proc.last_path = path
                cont = {
                    "kind": "cont",
                    "seq": self.seq,
                    "t": self.now + delay_ns(stmt["d"]),
                    "proc": proc,
                    "send": None,
                    "daemon": proc.daemon,
                    "cancelled": False,
                }
                self.seq += 1
                return side + [cont]
            elif op == "await":
                f = self._build_fexpr(stmt["f"])
                proc.last_path = path
                proc.parked_ever = True
                if f.resolved:
                    self._stat("await_already_resolved")
                fx = stmt["f"]
                if isinstance(fx, dict):
                    self._stat("combinator_awaits")
                    if any(isinstance(x, dict) for x in (fx.get("any") or fx.get("all"))):
                        self._stat("nested_combinator_awaits")
                if f.parked is not None and not f.resolved:
                    raise InvalidProgram("two processes parked on one future")
                f.parked = proc
                self.n_parked += 1
                if f.resolved:
                    self._resume_parked(f)
                return []
            else:
                raise ValueError(op)
        # finished
        if proc.hooks and getattr(proc, "parked_ever", False):
            self._stat("hooks_on_parked_process")
        self.log.append(("F", self.now, proc.pid))
        out = self._make_events(proc.ret, "ret")
        out += self._run_hooks(proc.hooks)
        return out

    def _run_hooks(self, hooks) -> list[dict]:
        out = []
        for h in hooks:
            self.log.append(("H", self.now, h["id"], self.now))
            out += self._make_events(h.get("events"), "hook")
        return out

    # ---- delivery ----------------------------------------------------------
    def _deliver(self, rec) -> list[dict]:
        if rec["kind"] == "cont":
            return self._advance(rec["proc"], rec["send"])
        self.log.append(("D", self.now, rec["t"], rec["pid"]))
        action = self.table.get(f"{rec['ent']}:{rec['type']}") or {"kind": "none"}
        k = action["kind"]
        if k == "none":
            return self._run_hooks(rec["hooks"])
        if k == "emit":
            self._cancel(action.get("cancel"))
            for fname, v in action.get("resolve") or []:
                self._resolve(self._fut(fname), v)
            out = self._make_events(action.get("events"), "emit")
            return out + self._run_hooks(list(rec["hooks"]) + list(action.get("add_hooks") or []))
        proc = _RProc(rec["pid"], rec["ent"], rec["daemon"], rec["hooks"], action.get("ret"), action.get("style"))
        proc.frames.append([action["body"], 0, ""])
        return self._advance(proc, None)

    # ---- main loop -----------------------------------------------------------
    def run(self, max_deliveries=100000):
        p = self.p
        # pre-run events are created in list order ("before" phase first by construction of the case)
        pre_recs = []
        for spec in p["pre"]:
            rec = self._new_event(spec, spec["t"], "pre")
            if spec.get("cancel_pre"):
                rec["cancelled"] = True
            pre_recs.append(rec)
        for i in p.get("sched_order") or range(len(pre_recs)):
            self._push(pre_recs[i])
        auto = self.end_ns is None
        injections = {}
        for inj in p.get("inject") or []:
            injections.setdefault(inj["after"], []).append(inj)
        def can_pause():
            # the engine pauses at the top of its loop: only while events remain and the horizon is not passed
            return bool(self.heap) and (auto or self.now <= self.end_ns)

        if can_pause():
            for inj in injections.pop(0, []):
                for new in self._make_events(inj["events"], "inject"):
                    self._push(new)
        while self.heap:
            if not auto and self.now > self.end_ns:
                self.stop_reason = "end_time"
                break
            if auto and self.primary <= 0:
                self.stop_reason = "no_primary"
                break
            if not auto and not self.exact_overshoot and self.heap[0][0] > self.end_ns:
                # documented semantics: nothing beyond end_time is live
                self.stop_reason = "end_time"
                break
            t, _, _, rec = heapq.heappop(self.heap)
            if not rec["daemon"]:
                self.primary -= 1
            if rec["cancelled"]:
                self.cancelled_popped += 1
                continue
            if t < self.now:
                self.discarded_past += 1
                if rec["kind"] == "ev":
                    rec["discarded"] = True
                continue
            if t != self.now:
                self.now = t
                # time-advance hooks run after the clock moved and before the event is delivered: a watchdog
                # registered through control.on_time_advance resolves its future here
                for w in self.p.get("watch") or []:
                    if not w.get("_fired") and t >= w["t"]:
                        w["_fired"] = True
                        self._stat("resolves_from_time_advance_hook")
                        self._resolve(self._fut(w["f"]), w["v"])
            self.processed += 1
            if self.processed > max_deliveries:
                raise RuntimeError("reference budget exceeded")
            for new in self._deliver(rec):
                self._push(new)
            # events created and scheduled from outside while the run is paused after `processed` deliveries
            if self.processed in injections and can_pause():
                for inj in injections.pop(self.processed):
                    for new in self._make_events(inj["events"], "inject"):
                        self._push(new)
        else:
            self.stop_reason = "heap_empty"
        return self


def run_reference(program, max_deliveries=100000, **kw) -> Reference:
    return Reference(program, **kw).run(max_deliveries=max_deliveries)


def program_is_valid(program) -> bool:
    """False when the program misuses the API under either end_time reading (see proggen)."""
    try:
        run_reference(program)
        if program.get("end_ns") is not None:
            run_reference(program, exact_overshoot=True)
    except InvalidProgram:
        return False
    except RuntimeError:  # a program the generator could not bring under the reference budget
        return False
    return True


# ==========================================================================
# real execution


import collections.abc as _abc


class GenWrapper(_abc.Generator):
    """A generator-protocol object that is not a native generator (what a wrapper class, Cython or
    mypyc would hand back); the engine documents `isinstance(result, Generator)` dispatch."""

    def __init__(self, gen):
        self._gen = gen

    def send(self, value):
        return self._gen.send(value)

    def throw(self, typ=None, val=None, tb=None):
        if val is None and tb is None:
            return self._gen.throw(typ)
        return self._gen.throw(typ, val, tb)

    def close(self):
        return self._gen.close()


class _Seconds(float):
    """A user's unit type: a float subclass."""


class _EntityClock:
    """The clock as the entity that is handling the current event sees it (`entity.now`)."""

    def __init__(self, entity):
        self._e = entity

    @property
    def now(self):
        return self._e.now


class RealRun:
    """Builds the program out of real Entities / Events / SimFutures.

    `make()` constructs everything and returns the Simulation (not yet run);
    the caller drives it (plain run, control scripts, ...).  `log` fills as it runs.
    """

    def __init__(self, program: dict, trace_recorder=None):
        from hsverif.core import ensure_repo_on_path

        ensure_repo_on_path()
        self.p = program
        self.log: list = []
        self.handles: dict[str, Any] = {}
        self.futures: dict[str, Any] = {}
        self.pid = 0
        self.events: dict[int, Any] = {}
        self.trace_recorder = trace_recorder
        self._shared_empty: list = []
        self.sim = None
        self.entities = []
        self.clock = None

    # ---- factory --------------------------------------------------------------
    def _mk(self, spec, t_ns):
        from happysimulator.core.event import Event
        from happysimulator.core.temporal import Instant

        pid = self.pid
        self.pid += 1
        hooks = [self._mk_hook(h) for h in (spec.get("hooks") or [])]
        ev = Event(
            time=Instant(t_ns),
            event_type=spec["type"],
            target=self.entities[spec["ent"]],
            daemon=bool(spec.get("daemon")),
            on_complete=hooks if hooks else None,
            context={"metadata": {"pid": pid}},
        )
        self.events[pid] = ev
        h = spec.get("handle")
        if h:
            self.handles[h] = ev
        return ev

    def _mk_hook(self, h):
        def hook(time):
            now = self.clock.now.nanoseconds
            self.log.append(("H", now, h["id"], time.nanoseconds))
            evs = [self._mk(s, now + s["dt"]) for s in (h.get("events") or [])]
            return evs

        return hook

    def _make_events(self, specs):
        now = self.clock.now.nanoseconds
        return [self._mk(s, now + s["dt"]) for s in (specs or [])]

    def _cancel(self, handles):
        for h in handles or []:
            ev = self.handles.get(h)
            if ev is not None:
                ev.cancel()

    def _fut(self, name):
        from happysimulator.core.sim_future import SimFuture

        f = self.futures.get(name)
        if f is None:
            f = self.futures[name] = SimFuture()
        return f

    def _build_fexpr(self, fx):
        from happysimulator.core.sim_future import all_of, any_of

        if isinstance(fx, str):
            return self._fut(fx)
        if "any" in fx:
            return any_of(*[self._build_fexpr(x) for x in fx["any"]])
        return all_of(*[self._build_fexpr(x) for x in fx["all"]])

    @staticmethod
    def _style(events, style):
        if style == "iter":
            # any iterable is accepted where a list of events is: here a one-shot generator expression
            return (e for e in list(events))
        if style == "single" and len(events) == 1:
            return events[0]
        if style == "none" and not events:
            return None
        return events

    @staticmethod
    def _delay_obj(stmt):
        """The delay as the object a user would yield: a float / int, or a subclass of one (numpy.float64 from a
        numpy reduction, a `class Seconds(float)`)."""
        d, kind = stmt["d"], stmt.get("d_kind")
        if kind == "np":
            import numpy as np

            return np.float64(d)
        if kind == "sub":
            return _Seconds(d)
        return d

    @staticmethod
    def _val(v):
        """JSON value -> the object handed to resolve(): ["<exc>", name, msg] stands for an exception INSTANCE
        used as data (fut.resolve(TimeoutError("..."))), everything else is itself."""
        if isinstance(v, list) and len(v) == 2 and v[0] == "<fut>":
            return RealRun._current._fut(v[1])
        if isinstance(v, list) and len(v) == 3 and v[0] == "<exc>":
            import builtins

            exc = getattr(builtins, v[1])(v[2])
            RealRun._made_exc.append(exc)
            return exc
        return v

    _made_exc: list = []  # exception instances handed to resolve() as data (identity matters below)

    _current = None  # the RealRun being driven (values that name a future need its table)

    @staticmethod
    def _norm(v):
        cur = RealRun._current
        if cur is not None and type(v).__name__ == "SimFuture":
            for name, f in cur.futures.items():
                if f is v:
                    return ["<fut>", name]
            return ["<fut>", "?"]
        if isinstance(v, BaseException):
            return ["<exc>", type(v).__name__, str(v.args[0]) if v.args else ""]
        if isinstance(v, tuple):
            return [RealRun._norm(x) for x in v]
        if isinstance(v, list):
            return [RealRun._norm(x) for x in v]
        return v

    def _body(self, body, prefix, pid, event=None):
        for idx, stmt in enumerate(body):
            path = f"{prefix}{idx}"
            op = stmt["op"]
            if op == "resolve":
                self._fut(stmt["f"]).resolve(self._val(stmt["v"]))
            elif op == "cancel":
                self._cancel(stmt["h"])
            elif op == "add_hook":
                event.add_completion_hook(self._mk_hook(stmt["hook"]))
            elif op == "sub":
                yield from self._body(stmt["body"], path + ".", pid, event)
            elif op == "delay":
                side = stmt.get("side")
                if stmt.get("side_style") == "shared":
                    # one list object shared by every yield of the run (a module-level NO_EVENTS = [] idiom)
                    got = yield (stmt["d"], self._shared_empty)
                elif side is None:
                    got = yield self._delay_obj(stmt)
                else:
                    evs = self._make_events(side)
                    got = yield (stmt["d"], self._style(evs, stmt.get("side_style", "list")))
                self.log.append(("R", self.clock.now.nanoseconds, pid, path, self._norm(got)))
            elif op == "await":
                try:
                    got = yield self._build_fexpr(stmt["f"])
                except Exception as exc:  # noqa: BLE001
                    # a resolved VALUE that is an exception instance must be received, not raised at the yield
                    if not any(exc is v for v in RealRun._made_exc):
                        raise
                    got = ["<raised-at-yield>", type(exc).__name__]
                self.log.append(("R", self.clock.now.nanoseconds, pid, path, self._norm(got)))
            else:
                raise ValueError(op)

    def _proc(self, action, pid, event=None):
        yield from self._body(action["body"], "", pid, event)
        self.log.append(("F", self.clock.now.nanoseconds, pid))
        return self._style(self._make_events(action.get("ret")), action.get("style", "list"))

    def make(self):
        from happysimulator.core.entity import Entity
        from happysimulator.core.simulation import Simulation
        from happysimulator.core.temporal import Instant

        run = self
        table = self.p["table"]

        class ScriptEntity(Entity):
            def __init__(self, idx):
                super().__init__(f"e{idx}")
                self.idx = idx
                self.handled = 0

            def handle_event(self, event):
                pid = event.context["metadata"]["pid"]
                self.handled += 1
                # `self.now` is the time a user's entity sees; it must be the clock of the simulation delivering the
                # event (C02-r8-1: set_clock() kept the clock of an earlier Simulation built over the same entities)
                run.log.append(("D", self.now.nanoseconds, event.time.nanoseconds, pid))
                run.clock = _EntityClock(self)
                # a handler may write into the metadata of the event it was handed (TTL / hop budgets); an event must
                # arrive with the metadata it was scheduled with (C04-r8-2: reset() replayed pre-run events from a spec
                # that aliased the live metadata dict, so the second run received what the first run had written)
                md = event.context["metadata"]
                if md.get("touched"):
                    run.log.append(("X", "metadata-written-by-an-earlier-delivery", pid))
                md["touched"] = True
                action = table.get(f"{self.idx}:{event.event_type}") or {"kind": "none"}
                k = action["kind"]
                if k == "none":
                    return None
                if k == "emit":
                    run._cancel(action.get("cancel"))
                    for fname, v in action.get("resolve") or []:
                        run._fut(fname).resolve(run._val(v))
                    for h in action.get("add_hooks") or []:
                        event.add_completion_hook(run._mk_hook(h))
                    return run._style(run._make_events(action.get("events")), action.get("style", "list"))
                proc = run._proc(action, pid, event)
                return GenWrapper(proc) if action.get("wrapped") else proc

        RealRun._current = self
        self.entities = [ScriptEntity(i) for i in range(self.p["n_ent"])]
        pre = self.p["pre"]
        created = {}
        # phase "before": created before Simulation() is constructed
        for i, spec in enumerate(pre):
            if spec.get("phase") == "before":
                created[i] = self._mk(spec, spec["t"])
            else:
                break
        n_before = len(created)
        end = self.p.get("end_ns")
        kw = {}
        if self.trace_recorder is not None:
            kw["trace_recorder"] = self.trace_recorder
        if self.p.get("start_ns"):
            kw["start_time"] = Instant(self.p["start_ns"])
        start = self.p.get("start_ns") or 0
        if end is not None and self.p.get("use_duration") and end >= start and start + delay_ns((end - start) / NS) == end:
            # the same horizon expressed as duration=<float seconds> (only when the float names exactly this nanosecond)
            kw["duration"] = (end - start) / NS
        else:
            kw["end_time"] = Instant(end) if end is not None else (Instant.Infinity if self.p.get("explicit_infinity") else None)
        prior = self.p.get("prior_sim")
        if prior is None:
            import json as _json
            import zlib as _zlib

            prior = _zlib.crc32(_json.dumps(self.p, sort_keys=True, default=str).encode()) % 4 == 0
        if prior:
            # model reuse: the same entity objects were registered in an earlier Simulation (built, run with nothing
            # to do, discarded) whose clock stands at another instant; the new run must not see anything of it
            old = Simulation(entities=list(self.entities), start_time=Instant(start + 987_654_321), end_time=Instant(start + 987_654_400))
            old.run()
        self.sim = Simulation(entities=list(self.entities), **kw)
        self.clock = self.sim._clock
        self.sim_clock = self.sim._clock
        if self.p.get("watch"):
            pending = [dict(w) for w in self.p["watch"]]

            def on_time(t, pending=pending):
                for w in pending:
                    if not w.get("_fired") and t.nanoseconds >= w["t"]:
                        w["_fired"] = True
                        self._fut(w["f"]).resolve(self._val(w["v"]))

            self.sim.control.on_time_advance(on_time)
        for i in range(n_before, len(pre)):
            created[i] = self._mk(pre[i], pre[i]["t"])
        for i, spec in enumerate(pre):
            if spec.get("cancel_pre"):
                created[i].cancel()
        for i in self.p.get("sched_order") or range(len(pre)):
            self.sim.schedule(created[i])
        return self.sim

"""pytest plugin: run the repository's own suite under the C07 engine probes (layer 2).

    cd $HS_REPO && HSVERIF_C07_OUT=/path/report.json \
        python -m pytest -p hsverif.pytest_plugin -q -p no:cacheprovider tests/...

For every test (setup + call + teardown) a fresh `C07Probe` is installed with
no caps (the suite is known to terminate; raising out of a test would change
it).  Past emissions and "Time travel detected" discards are attributed exactly
as in layer 1; emitters / creators defined outside `happysimulator.` (test
files, conftest) are ignored - the suite contains deliberate time-travel tests.
Frozen clocks are not decidable here (workload finiteness of a test is unknown):
only the largest per-instant delivery count is reported.
"""

from __future__ import annotations

import json
import os

import pytest

from hsverif.core import ensure_repo_on_path

ensure_repo_on_path()

from hsverif.c07_probe import C07Probe, CoverageMonitor, driven_classes, is_library_module, norm_type  # noqa: E402

_STATE = {
    "tests": 0,
    "failed": 0,
    "failed_ids": [],
    "deliveries": 0,
    "pushes": 0,
    "time_travel": 0,
    "ignored_past": 0,
    "max_instant": 0,
    "max_instant_test": None,
    "violations": {},  # key -> violation dict (first witness) + count
    "cov": None,
}


def pytest_configure(config):
    cov = CoverageMonitor()
    try:
        cov.start()
        _STATE["cov"] = cov
    except Exception:  # noqa: BLE001  tool id taken (coverage run): go on without the table
        _STATE["cov"] = None


@pytest.hookimpl(hookwrapper=True)
def pytest_runtest_protocol(item, nextitem):
    probe = C07Probe(log_deliveries=False, instant_cap=None, total_cap=None)
    probe.install()
    try:
        yield
    finally:
        probe.uninstall()
        _collect(item.nodeid, probe)


def _collect(nodeid: str, probe: C07Probe):
    st = _STATE
    st["tests"] += 1
    st["deliveries"] += probe.n_deliveries
    st["pushes"] += probe.n_pushes
    st["time_travel"] += len(probe.time_travel)
    if probe.max_instant > st["max_instant"]:
        st["max_instant"] = probe.max_instant
        st["max_instant_test"] = nodeid
    lib = probe.attributed_past_emissions()
    st["ignored_past"] += len(probe.c07_past) - len(lib)
    explained = {r["event_id"] for r in probe.c07_past if r.get("event_id") is not None}
    explained_types = {r["event_type"] for r in probe.c07_past if r.get("event_id") is None}
    for r in lib:
        key = (r["component"], "past-emission", r["event_type"])
        v = st["violations"].get(key)
        if v is None:
            st["violations"][key] = {
                "oracle": "past-emission",
                "component": r["component"],
                "shape": r["event_type"],
                "detail": (
                    f"repository test {nodeid}: event '{r['event_type']}' pushed {r['behind_ns']} ns before the clock by "
                    f"{r.get('creator') or r['component']} [{r['how']}] during a delivery to {r['delivery_class']}"
                ),
                "witness": {"test": nodeid, "first": {k: v2 for k, v2 in r.items() if k != "event_id"}, "count": 1, "tests": [nodeid]},
            }
        else:
            v["witness"]["count"] += 1
            if nodeid not in v["witness"]["tests"] and len(v["witness"]["tests"]) < 8:
                v["witness"]["tests"].append(nodeid)
    for rec in probe.time_travel:
        msg = rec.get("msg", "")
        eid = msg.rsplit("event_id=", 1)[-1].strip() if "event_id=" in msg else None
        if eid in explained:
            continue
        if eid in (None, "None") and norm_type(rec.get("event_type")) in explained_types:
            continue
        last = rec.get("last_emitter") or ("?", "", None)
        if not is_library_module(last[1] or ""):
            continue
        key = (last[0], "time-travel-discard", norm_type(rec.get("event_type")))
        if key not in st["violations"]:
            st["violations"][key] = {
                "oracle": "time-travel-discard",
                "component": last[0],
                "shape": key[2],
                "detail": f"repository test {nodeid}: engine discarded an event no recorded push explains: {msg}",
                "witness": {"test": nodeid, "record": {k: str(v2) for k, v2 in rec.items()}},
            }


def pytest_runtest_logreport(report):
    if report.failed:
        _STATE["failed"] += 1
        if len(_STATE["failed_ids"]) < 20:
            _STATE["failed_ids"].append(f"{report.nodeid}[{report.when}]")


def pytest_sessionfinish(session, exitstatus):
    out = os.environ.get("HSVERIF_C07_OUT")
    st = _STATE
    cov = st.pop("cov", None)
    driven = {}
    if cov is not None:
        try:
            driven = driven_classes(cov.seen)
            cov.stop()
        except Exception:  # noqa: BLE001
            driven = {}
    report = {k: v for k, v in st.items() if k != "violations"}
    report["violations"] = list(st["violations"].values())
    report["driven"] = driven
    report["exitstatus"] = int(exitstatus)
    if out:
        with open(out, "w") as f:
            json.dump(report, f, default=str)

"""C16 helper: client-boundary history, step-wise state sampling and the oracles.

Everything here observes the real cache classes through their public API only
(`get/put/delete/invalidate/invalidate_all/flush`, `cache_size`, `cache_capacity`,
`get_cached_keys()`, `get_dirty_keys()`, `contains_cached()`, `stats`, and the
backing `KVStore.get_sync()`), plus the eviction-policy object the harness
itself constructed and handed to the cache (drained on a deep copy).

Vocabulary
----------
op record     {"id","c","kind","key","val","start","end","res", ...}  times in ns
write record  {"kind","key","val","start","end","strong"}             val None = delete
              strong = the cache layer is responsible for making later reads see it
              (writes through the cache; direct backing write + invalidate pairs)
fact          something the step sampler saw that can *explain* a later stale read
              (dirty key dropped from the cache; miss-fill overlapping a write; ...)
"""

from __future__ import annotations

import copy

from hsverif.core import Result

INIT_T = -1
_ANY = object()


def canon(v):
    """Hashable, type-exact token for a stored value.  Tagged unique ids (non-empty str) stay themselves; None stays None
    (a stored None and an absent key are indistinguishable to a reader, and the model treats them alike); every other
    value - the falsy ones 0, "", False, 0.0, [], {} the workloads write - becomes "<type:repr>", so that 0, False and 0.0
    are different values for the model and unhashable values can live in sets."""
    if v is None:
        return None
    if isinstance(v, str) and v and not v.startswith("<"):
        return v
    return f"<{type(v).__name__}:{v!r}>"


def is_tagged(c):
    return isinstance(c, str) and not c.startswith("<")


def drain_policy(policy, limit: int):
    """Keys a deep copy of the policy yields from evict() until None. (list, terminated?)"""
    p = copy.deepcopy(policy)
    out = []
    for _ in range(limit):
        k = p.evict()
        if k is None:
            return out, True
        out.append(k)
    return out, False


class Tier:
    """One capacity-bounded cache whose invariants are sampled."""

    def __init__(self, label, store, policy=None, polname="", write_back=False):
        self.label = label
        self.store = store
        self.policy = policy
        self.polname = polname
        self.write_back = write_back

    @property
    def capacity(self):
        return self.store.cache_capacity


class Mon:
    def __init__(self, res: Result, comp: str, store, backing, keys, tiers, init: dict, hard_ns=None):
        self.res = res
        self.comp = comp
        self.store = store
        self.backing = backing
        self.keys = list(keys)
        self.tiers = tiers
        self.hard_ns = hard_ns
        self.skip_dirty_invalidate = True
        self.order_put_delete = False
        self.hist: list[dict] = []
        self.writes: dict[str, list[dict]] = {k: [] for k in keys}
        self.facts: dict[str, list[tuple]] = {k: [] for k in keys}  # key -> [(t, kind, info)]
        self.discards: list[dict] = []
        self.latest: dict[str, object] = {}
        self.timeline: dict[str, list[tuple]] = {}
        self.seen_backing: dict[str, set] = {k: set() for k in keys}
        self.lib_exc: list[dict] = []
        self.inflight = 0
        self._viol_keys: set = set()
        self.samples = 0
        for k in keys:
            v = canon(init.get(k))
            self.writes[k].append({"kind": "init", "key": k, "val": v, "start": INIT_T, "end": INIT_T, "strong": True})
            self.timeline[k] = [(INIT_T, v)]
            if v is not None:
                self.seen_backing[k].add(v)
                self.latest[k] = v

    # ------------------------------------------------------------------ time
    def now(self) -> int:
        return self.backing.now.nanoseconds

    # ------------------------------------------------------------ violations
    def violate(self, oracle, shape, detail, witness=None, comp=None):
        key = (comp or self.comp, oracle, shape)
        self.res.count("violations_raw")
        if key in self._viol_keys:
            return
        self._viol_keys.add(key)
        self.res.add(oracle, comp or self.comp, shape, detail, witness)

    # -------------------------------------------------------------- sampling
    def sample_backing(self):
        t = self.now()
        for k in self.keys:
            v = canon(self.backing.get_sync(k))
            tl = self.timeline[k]
            if tl[-1][1] != v:
                if is_tagged(v) and v in self.seen_backing[k]:
                    # unique values: the backing store went back to a value it had already replaced
                    self.facts[k].append((t, "backing-store-value-reappears", {"value": v, "replaced": tl[-1][1]}))
                tl.append((t, v))
                if v is not None:
                    self.seen_backing[k].add(v)

    def check_invariants(self, where: str):
        """capacity and policy-key-set clauses; called after every delivery."""
        self.samples += 1
        for tier in self.tiers:
            cap = tier.capacity
            st = tier.store
            if cap is not None:
                self.res.count("capacity_checks")
                if st.cache_size > cap:
                    self.violate(
                        "over-capacity",
                        tier.polname or "builtin-lru",
                        f"{tier.label}: cache_size={st.cache_size} > capacity={cap} after {where}",
                        {"t_ns": self.now(), "cached": sorted(map(str, st.get_cached_keys())), "after": where},
                        comp=type(st).__name__,
                    )
            if tier.policy is not None:
                self.res.count("policy_drains")
                held = sorted(st.get_cached_keys())
                drained, ok = drain_policy(tier.policy, 4 * len(self.keys) + 16)
                if not ok:
                    self.violate(
                        "policy-keys-diverge",
                        f"{tier.polname}:drain-does-not-terminate",
                        f"{tier.label}: evict() on a copy of the policy never returned None",
                        {"held": held, "drained_prefix": drained[:12]},
                        comp=type(st).__name__,
                    )
                elif sorted(drained) != held:
                    extra = sorted(set(drained) - set(held))
                    missing = sorted(set(held) - set(drained))
                    kind = "policy-tracks-unheld-key" if extra else ("held-key-untracked" if missing else "duplicate-in-policy")
                    self.violate(
                        "policy-keys-diverge",
                        f"{tier.polname}:{kind}",
                        f"{tier.label}: policy keys {sorted(drained)} != cached keys {held} after {where}",
                        {"t_ns": self.now(), "held": held, "policy": sorted(drained), "after": where},
                        comp=type(st).__name__,
                    )

    def on_delivery(self, event):
        self.sample_backing()
        self.check_invariants(f"delivery:{event.event_type}")

    # ------------------------------------------------------------ operations
    def _pre(self):
        return [set(t.store.get_dirty_keys()) if t.write_back else None for t in self.tiers]

    def _post(self, rec, pre):
        """Called after every generator step of a tracked op (same delivery)."""
        before = {k: self.timeline[k][-1][1] for k in self.keys} if rec["kind"] == "flush" else None
        self.sample_backing()
        t = self.now()
        if before is not None:
            for k in self.keys:
                v = self.timeline[k][-1][1]
                if v != before[k] and v is not None and k in self.latest and self.latest[k] != v:
                    # the flush's write-back landed after a newer write to the key had started
                    self.facts[k].append((t, "flush-overlaps-write", {"op": rec["id"], "wrote": v, "latest": self.latest[k]}))
        for ti, tier in enumerate(self.tiers):
            if pre[ti] is None:
                continue
            dirty = set(tier.store.get_dirty_keys())
            cached = set(tier.store.get_cached_keys())
            for k in pre[ti] - dirty:
                want = self.latest.get(k)
                if k not in cached:
                    if rec["kind"] == "delete" and rec["key"] == k:
                        # a delete supersedes the dirty value; but until it lands the backing store may expose a value older than it
                        dv = rec.get("prev_latest")
                        if dv is not None and dv not in self.seen_backing[k]:
                            self.facts[k].append((t, "delete-of-dirty-key-exposes-older-backing-value", {"op": rec["id"], "window_op": rec["id"], "dirty_value": dv, "backing": canon(self.backing.get_sync(k))}))
                        continue
                    if rec["kind"] == "invall":
                        how = "invalidate_all-with-dirty-keys"
                    elif rec["kind"] in ("inv", "bput", "bdel") and rec["key"] == k:
                        how = "invalidate-of-dirty-key"
                    else:
                        how = "eviction-of-dirty-key"
                    reached = want is None or want in self.seen_backing[k]
                    self.discards.append({"t": t, "key": k, "want": want, "how": how, "op": rec["id"], "tier": tier.label, "reached": reached})
                elif canon(self.backing.get_sync(k)) != want:
                    # dirty flag cleared while the cache holds a value the backing store has not got
                    self.facts[k].append((t, "flush-overlaps-write", {"op": rec["id"], "backing": canon(self.backing.get_sync(k)), "latest": want}))

    def _record_write(self, rec, strong=True):
        w = {"kind": rec["kind"], "key": rec["key"], "val": rec["val"], "start": rec["start"], "end": None, "strong": strong, "op": rec["id"]}
        self.writes[rec["key"]].append(w)
        rec["prev_latest"] = self.latest.get(rec["key"])
        self.latest[rec["key"]] = rec["val"]
        return w

    def _overlapping_writes(self, key, s, e, exclude_val):
        out = []
        for w in self.writes[key]:
            if w["kind"] == "init" or not w["strong"]:
                continue
            if w["start"] <= e and (w["end"] is None or w["end"] >= s) and w["val"] != exclude_val:
                out.append(w)
        return out

    def do(self, cid, kind, key=None, val=None):
        """Generator: run one client operation against the cache, recording it at the client boundary."""
        raw = val
        rec = {"id": len(self.hist), "c": cid, "kind": kind, "key": key, "val": canon(val), "start": self.now(), "end": None, "res": None}
        self.hist.append(rec)
        st = self.store
        pre = self._pre()
        w = None
        gen = None
        ttl0 = None
        if kind == "get":
            rec["tier_hit"] = self._tier_hit(key)
            rec["promos"] = self._promos()
            ttl0 = self._ttl_stats()
            gen = st.get(key)
        elif kind == "l2get":
            t2 = self.tiers[1].store
            rec["tier_hit"] = 1 if t2.contains_cached(key) else None
            gen = t2.get(key)
        elif kind == "put":
            w = self._record_write(rec)
            gen = st.put(key, raw)
        elif kind == "delete":
            rec["val"] = None
            w = self._record_write(rec)
            gen = st.delete(key)
        elif kind == "flush":
            gen = st.flush()
        elif kind == "inv":
            if self.skip_dirty_invalidate and self._is_dirty(key):
                rec["skipped"] = True
                self.res.count("invalidate_of_dirty_key_skipped")
            else:
                st.invalidate(key)
        elif kind == "invall":
            if self.skip_dirty_invalidate and self._is_dirty(None):
                rec["skipped"] = True
                self.res.count("invalidate_of_dirty_key_skipped")
            else:
                st.invalidate_all()
        elif kind in ("bput", "bdel", "bput_raw", "bdel_raw"):
            if kind.startswith("bdel"):
                rec["val"] = None
            rec["was_cached"] = bool(st.contains_cached(key)) if hasattr(st, "contains_cached") else None
            w = self._record_write(rec, strong=not kind.endswith("_raw"))
            if kind.startswith("bput"):
                self.backing.put_sync(key, raw)
            else:
                self.backing.delete_sync(key)
            if not kind.endswith("_raw"):
                st.invalidate(key)
        else:
            raise ValueError(kind)

        self.inflight += 1
        try:
            if gen is not None:
                try:
                    try:
                        d = next(gen)
                    finally:
                        self._post(rec, pre)
                        if ttl0 is not None:
                            rec["path"] = self._ttl_path(ttl0, self._ttl_stats())
                    while True:
                        sent = yield d
                        pre = self._pre()
                        try:
                            d = gen.send(sent)
                        finally:
                            self._post(rec, pre)
                except StopIteration as stop:
                    rec["res"] = canon(stop.value) if kind in ("get", "l2get") else stop.value
            else:
                self._post(rec, pre)
        finally:
            self.inflight -= 1
        rec["end"] = self.now()
        if w is not None:
            w["end"] = rec["end"]
        if kind in ("get", "l2get"):
            self._after_get(rec)
        return rec

    def _is_dirty(self, key):
        for t in self.tiers:
            if t.write_back:
                d = t.store.get_dirty_keys()
                if (key is None and d) or (key is not None and key in d):
                    return True
        return False

    # ---- multi-tier helpers
    def _tier_hit(self, key):
        if len(self.tiers) == 1 and self.tiers[0].store is self.store:
            return 0 if self.store.contains_cached(key) else None
        for i, t in enumerate(self.tiers):
            if t.store.contains_cached(key):
                return i
        return None

    def _ttl_stats(self):
        s = getattr(self.store, "stats", None)
        if s is None or not hasattr(s, "stale_hits"):
            return None
        return (s.fresh_hits, s.stale_hits, s.hard_misses, s.coalesced_requests, s.background_refreshes)

    @staticmethod
    def _ttl_path(a, b):
        if b[0] > a[0]:
            return "fresh-hit"
        if b[1] > a[1]:
            return "stale-hit-starts-refresh" if b[4] > a[4] else "stale-hit"
        if b[3] > a[3]:
            return "coalesced-on-refresh"
        if b[2] > a[2]:
            return "hard-miss-fetch"
        return "unclassified"

    def _promos(self):
        s = getattr(self.store, "stats", None)
        return getattr(s, "promotions", None)

    def _after_get(self, rec):
        """Record facts: a fill / promotion that overlapped a write to the same key."""
        k, v = rec["key"], rec["res"]
        if v is None:
            return
        ov = self._overlapping_writes(k, rec["start"], rec["end"], v)
        if rec["tier_hit"] is None:
            rec["fill"] = True
            if ov:
                rec["fill_overlap"] = True
                self.facts[k].append((rec["end"], "miss-fill-overlaps-write", {"get": rec["id"], "installed": v, "writes": [w["op"] for w in ov]}))
        elif rec["kind"] == "get" and rec["tier_hit"] > 0:
            p = self._promos()
            if p is not None and rec["promos"] is not None and p > rec["promos"]:
                rec["promoted"] = True
                # an invalidation of the key while the lower-tier read was in flight counts like a write:
                # the promotion re-installs what the invalidation removed
                inv = [
                    h["id"]
                    for h in self.hist
                    if h["kind"] in ("inv", "invall") and (h["key"] == k or h["kind"] == "invall") and rec["start"] <= h["start"] <= rec["end"]
                ]
                if inv and not ov:
                    self.facts[k].append((rec["end"], "promotion-overlaps-write", {"get": rec["id"], "installed": v, "invalidations": inv}))
                if ov:
                    self.facts[k].append((rec["end"], "promotion-overlaps-write", {"get": rec["id"], "installed": v, "writes": [w["op"] for w in ov]}))

    # ------------------------------------------------------------ evaluation
    def _later(self, x, w):
        """w is a later write than x: entirely after it, or - for overlapping writes - issued later AND completed later.

        Why that is the system's own order: a write-through put is applied to the cache when issued and to the backing
        store when it returns, a write-back put is applied when issued and returns a constant latency later, soft-TTL and
        multi-tier puts are applied when the backing write lands (constant latency after issue); so of two overlapping
        puts the one issued and completed later is applied later in every layer.  The same holds for put/delete pairs only
        when a put is not acknowledged before it reaches the backing store (`self.order_put_delete`: write-through
        CachedStore, multi-tier with write-through L1); with write-back puts a delete that was issued earlier may be applied
        after a put that was issued later, so such pairs stay unordered.  Overlapping writes ordered differently by issue
        and completion stay unordered (either may win)."""
        if x["end"] is None or w["end"] is None:
            return False
        if x["end"] < w["start"]:
            return True
        kinds = {x["kind"], w["kind"]}
        if kinds == {"put"} or (self.order_put_delete and kinds <= {"put", "delete"}):
            return x["start"] < w["start"] and x["end"] < w["end"]
        return False

    def _superseders(self, key, x, before):
        """strong writes later than x (see _later) that completed strictly before `before`."""
        return [w for w in self.writes[key] if w["strong"] and w is not x and w["end"] is not None and w["end"] < before and self._later(x, w)]

    def _attribute(self, key, since, until, issued=None, value=_ANY):
        issued = until if issued is None else issued
        cands = []
        for f in self.facts[key]:
            if not (since <= f[0] <= until):
                continue
            if isinstance(f[2], dict) and "installed" in f[2]:
                # "a fill/promotion put value v into the cache": refuted if the stale value seen is a different one,
                # or if a read in between returned something else
                inst = f[2]["installed"]
                if value is not _ANY and value != inst:
                    continue
                if any(
                    r["kind"] == "get" and r["key"] == key and r["end"] is not None and r["start"] > f[0] and r["end"] < issued and r["res"] != inst
                    for r in self.hist
                ):
                    continue
            win = f[2].get("window_op") if isinstance(f[2], dict) else None
            if win is not None:
                # only explains observations issued while that operation was still in flight
                e = self.hist[win]["end"]
                if e is not None and issued > e:
                    continue
            cands.append(f)
        if not cands:
            return "unattributed", None
        cands.sort(key=lambda f: f[0])
        # a value coming back in the backing store itself is upstream of whatever a fill then copied from it
        for f in cands:
            if f[1] == "backing-store-value-reappears" and (value is _ANY or f[2].get("value") == value):
                return f[1], f[2]
        return cands[0][1], cands[0][2]

    def _brief(self, rec):
        return {k: rec.get(k) for k in ("id", "c", "kind", "key", "val", "start", "end", "res", "tier_hit") if k in rec}

    def key_history(self, key, limit=40):
        ops = [self._brief(r) for r in self.hist if r["key"] == key or r["kind"] in ("invall", "flush")]
        return ops[-limit:]

    def check_read(self, rec):
        """Interval rule for one completed read."""
        k, r = rec["key"], rec["res"]
        ws = self.writes[k]
        cands = [x for x in ws if x["val"] == r]
        self.res.count("reads_checked")
        path = rec.get("path")  # soft-TTL caches: the mechanism is the read path the cache took
        if not cands:
            self.violate("stale-read", path or "value-never-written", f"get({k}) returned {r!r} which no write produced", {"read": self._brief(rec), "history": self.key_history(k)})
            return
        best = None
        for x in cands:
            if x["start"] > rec["end"]:
                continue
            sup = self._superseders(k, x, rec["start"])
            if not sup:
                return  # allowed
            if best is None or x["start"] > best[0]["start"]:
                best = (x, sup)
        if best is None:
            self.violate("stale-read", path or "value-from-the-future", f"get({k}) returned {r!r} before its write began", {"read": self._brief(rec), "history": self.key_history(k)})
            return
        x, sup = best
        wstar = max(sup, key=lambda w: w["start"])
        shape, info = self._attribute(k, wstar["start"], rec["end"], issued=rec["start"], value=r)
        if path:
            shape = path
        elif shape == "unattributed" and wstar["val"] is not None and not is_tagged(wstar["val"]):
            shape = "newest-write-has-falsy-value"
        self.res.count("stale_reads")
        if shape.startswith("after-"):
            self.res.count("stale_reads_downstream_of_reported_discard")
            return
        self.violate(
            "stale-read",
            shape,
            f"get({k}) issued at {rec['start']}ns returned {r!r} (written [{x['start']},{x['end']}]) although "
            f"{wstar['kind']}({k},{wstar['val']!r}) completed at {wstar['end']}ns",
            {"read": self._brief(rec), "returned_write": x, "newer_completed_write": wstar, "explained_by": info, "history": self.key_history(k)},
        )

    def maximal_values(self, key):
        ws = [w for w in self.writes[key] if w["end"] is not None]
        out = []
        for x in ws:
            if not any(w is not x and x["end"] < w["start"] for w in ws):
                out.append(x)
        return out

    def snapshot_final_backing(self, oracle):
        self.final_snapshot = (oracle, self.now(), {k: canon(self.backing.get_sync(k)) for k in self.keys})

    def check_final_backing(self):
        """After the final flush the backing store holds a latest value of every key."""
        if getattr(self, "final_snapshot", None) is None:
            return
        oracle, t, snap = self.final_snapshot
        for k in self.keys:
            self.res.count("final_keys_checked")
            have = snap[k]
            mx = self.maximal_values(k)
            if any(x["val"] == have for x in mx):
                continue
            xs = [x for x in self.writes[k] if x["val"] == have]
            since = min((w["start"] for w in mx), default=0)
            if xs:
                sup = [w for w in self.writes[k] if w["end"] is not None and xs[-1]["end"] is not None and xs[-1]["end"] < w["start"]]
                if sup:
                    since = max(w["start"] for w in sup)
            shape, info = self._attribute(k, since, t, value=have)
            if shape.startswith("after-"):
                self.res.count("final_losses_downstream_of_reported_discard")
                continue
            self.violate(
                oracle,
                shape,
                f"after the final flush backing[{k}]={have!r} but the latest write(s) are {[x['val'] for x in mx]}",
                {"key": k, "backing": have, "latest_writes": mx, "explained_by": info, "history": self.key_history(k)},
            )

    def evaluate_discards(self):
        """Write-back data dropped from the cache must have reached the backing store (then or via an in-flight flush)."""
        for d in self.discards:
            self.res.count("dirty_drops_checked")
            if d["reached"]:
                continue
            d["landed_later"] = d["want"] in self.seen_backing[d["key"]]  # an in-flight flush delivered it afterwards
            d["lost"] = True
            wr = [w for w in self.writes[d["key"]] if w["val"] == d["want"]]
            since = wr[-1]["start"] if wr else 0
            earlier, _ = self._attribute(d["key"], since, d["t"])
            if earlier != "unattributed":
                # the cached copy had already been replaced by an older value (e.g. by a racing miss-fill):
                # that mechanism is reported through the read / final-state oracles
                self.res.count("dirty_drops_downstream_of_earlier_fact")
                continue
            self.facts[d["key"]].append((d["t"], "after-" + d["how"], {"op": d["op"]}))
            opk = self.hist[d["op"]]
            self.violate(
                "writeback-discarded",
                d["how"],
                f"{d['tier']}: dirty key {d['key']} (value {d['want']!r}) left the cache during {opk['kind']}({opk['key']}) at {d['t']}ns "
                + ("before an in-flight flush delivered it to the backing store" if d["landed_later"] else "and never reached the backing store"),
                {"drop": {k: d[k] for k in ("t", "key", "want", "how", "tier")}, "during": self._brief(opk), "history": self.key_history(d["key"])},
            )

    def check_hard_ttl(self, rec):
        """Soft-TTL: the served value must have been current in the backing store at some time in
        [issue - hard_ttl, return]; otherwise the entry that carried it was older than hard_ttl when it was served."""
        k, r = rec["key"], rec["res"]
        tl = self.timeline[k]
        self.res.count("ttl_reads_checked")
        last_cur = None
        for i, (t, v) in enumerate(tl):
            if v == r and t <= rec["end"]:
                nxt = tl[i + 1][0] if i + 1 < len(tl) else None
                if nxt is None or nxt > rec["end"]:
                    return  # current during the read
                last_cur = nxt if last_cur is None else max(last_cur, nxt)
        path = rec.get("path", "unclassified")
        if last_cur is None:
            if r is None:
                self.violate(
                    "hard-ttl-exceeded",
                    path,
                    f"get({k}) returned None but the key was never absent from the backing store",
                    {"read": self._brief(rec), "timeline": tl[-8:], "history": self.key_history(k)},
                )
            return  # value never observed in the backing store (overwritten inside one instant): no bound derivable
        age = rec["start"] - last_cur
        if age > self.hard_ns:
            self.res.count("ttl_violations_raw")
            self.violate(
                "hard-ttl-exceeded",
                path,
                f"get({k}) issued at {rec['start']}ns returned {r!r}, which stopped being current in the backing store at {last_cur}ns: "
                f"{age}ns > hard_ttl {self.hard_ns}ns",
                {"read": self._brief(rec), "timeline": tl[-8:], "history": self.key_history(k)},
            )

"""C12 single-decree Paxos: generator, harness, oracles."""

from __future__ import annotations

import random

from hsverif.c12_common import (
    DelayScript,
    Simulation,
    Instant,
    at,
    mesh,
    new_network,
    fault_free_script,
    gen_partitions,
    jsonable,
    random_script,
    run_sim,
    schedule_partitions,
)
from hsverif.core import Result

from happysimulator.components.consensus.paxos import PaxosNode
from happysimulator.core.event import ProcessContinuation

COMP = "PaxosNode"
MSG = ["PaxosPrepare", "PaxosPromise", "PaxosNack", "PaxosAccept", "PaxosAccepted", "PaxosDecided"]
FALSY = [0, "", False, 0.0, [], {}]  # at most one per case (0 == False == 0.0)
HOPS_BUDGET = 6  # Prepare, Promise, Accept, Accepted, Decided + 1 spare


def gen_single(rng: random.Random, tier: str) -> dict:
    n = rng.choice([3, 3, 3, 4, 5, 5])
    names = [f"n{i}" for i in range(n)]
    retry_delay = rng.choice([0.05, 0.2, 0.5])
    if rng.random() < 0.12:
        # fault-free, single proposer: bounded liveness clause
        hi = rng.choice([0.001, 0.01, 0.05])
        return {
            "mode": "live",
            "n": n,
            "retry_delay": retry_delay,
            "script": fault_free_script(rng, hi / 10, hi),
            "max_delay": hi,
            "proposals": [{"node": rng.choice(names), "value": rng.choice(["v0", "v0", "v0"] + FALSY), "at": 0.1}],
            "partitions": [],
            "gseed": rng.randrange(1 << 30),
            "end": 0.1 + 40 * hi + 1.0,
        }
    k = rng.choice([1, 2, 2, 2, 3, 3])
    slow_links = rng.random() < 0.2
    if slow_links:
        # 5 nodes, 3 proposers, a fast network with one or two very slow directed links and a few lost messages:
        # stale lower-ballot Prepare / Accept messages arrive long after a value was chosen; retries mostly far away
        n, k = 5, 3
        names = [f"n{i}" for i in range(n)]
        retry_delay = rng.choice([0.5, 5.0, 5.0])
    proposers = rng.sample(names, min(k, n))
    t = retry_delay
    script = random_script(rng, names, MSG, timeout_scale=t)
    if slow_links:
        dl = rng.choice([0.005, 0.01, 0.02])
        pairs = [(p, q) for p in names for q in names if p != q]
        script = {
            "seed": rng.randrange(1 << 30),
            "family": "uniform",
            "base": [round(dl / 2, 6), dl],
            "loss": rng.choice([0.0, 0.05, 0.15]),
            "asym": {f"{p}>{q}": rng.choice([30, 60, 100, 200]) for p, q in rng.sample(pairs, rng.choice([1, 2, 2]))},
            "rules": [
                {"src": rng.choice(names), "dst": rng.choice(names), "type": rng.choice(["PaxosPrepare", "PaxosAccept", "PaxosDecided"]),
                 "nth": rng.choice([None, 0]), "delay": None, "drop": True}
                for _ in range(rng.randrange(0, 6))
            ],
        }
    proposals = []
    for i, p in enumerate(proposers):
        off = rng.choice([0.0, 0.0, rng.uniform(0, 0.05 * t), rng.uniform(0, 0.5 * t), rng.uniform(0, 3 * t)])
        if slow_links:
            off = rng.choice([0.0, rng.uniform(0, 30 * dl), rng.uniform(0, 250 * dl)])
        proposals.append({"node": p, "value": f"v{i}-{p}", "at": round(0.1 + off, 6)})
    if rng.random() < 0.35:
        # one proposal carries a falsy value (legal client values; None is excluded: it is the "undecided" read-out)
        rng.choice(proposals)["value"] = rng.choice(FALSY)
    if rng.random() < 0.15:
        # a client proposes again on a node that already proposed (new unique value)
        p = rng.choice(proposers)
        proposals.append({"node": p, "value": f"v{len(proposals)}-{p}-again", "at": round(0.1 + rng.uniform(0.5 * t, 6 * t), 6)})
    span = 8 * t
    return {
        "mode": "chaos",
        "n": n,
        "retry_delay": retry_delay,
        "script": script,
        "proposals": proposals,
        "partitions": gen_partitions(rng, names, 0.1, span) if rng.random() < 0.4 else [],
        "gseed": rng.randrange(1 << 30),
        "end": round(0.1 + (600 * dl if slow_links else 40 * t), 6),
    }


def gen_single_adv(rng: random.Random, tier: str) -> dict:
    """Scripted adversaries for single-decree Paxos; two schedule classes drawn with equal probability."""
    if rng.random() < 0.5:
        return gen_fast_retry(rng, tier)
    return gen_stale_accept(rng, tier)


def gen_fast_retry(rng: random.Random, tier: str) -> dict:
    """Class "retry overtakes the Accepted replies of the ballot it abandons".

    5 nodes.  `early` proposes while it is partitioned away (it keeps a self-promise for its ballot), the partition heals,
    `main` (lower name, hence lower ballot at equal number) proposes: a fast quorum promises, phase 2 starts, `early`'s
    Nack arrives over a somewhat slower link while the Accepts are in flight, and the retry timer (retry_delay well below
    the round trip, swept from 0.1 to 2 one-way delays) abandons the ballot before its Accepted replies come back.
    Retry storms are possible on the unchanged tree when retry_delay is far below the link latency; the run is short and
    capped (cap => inconclusive, never a verdict)."""
    names = [f"n{i}" for i in range(5)]
    main, early = sorted(rng.sample(names, 2))
    d = rng.choice([0.02, 0.05, 0.1])
    slow = round(rng.uniform(1.05, 1.9), 3)
    retry_delay = round(d * rng.choice([0.1, 0.25, 0.5, 0.5, 0.75, 1.0, 2.0]), 6)
    t_main = 1.0
    proposals = [
        {"node": early, "value": "vB", "at": 0.1},
        {"node": main, "value": rng.choice(["vA", "vA", "vA", 0, ""]), "at": t_main},
    ]
    if rng.random() < 0.25:
        third = rng.choice([x for x in names if x not in (main, early)])
        proposals.append({"node": third, "value": "vC", "at": round(t_main + rng.uniform(0, 12 * d), 6)})
    return {
        "mode": "chaos",
        "variant": "fast-retry",
        "n": 5,
        "retry_delay": retry_delay,
        "script": {
            "seed": rng.randrange(1 << 30),
            "family": "uniform",
            "base": [round(0.95 * d, 6), d],
            "loss": 0.0,
            "asym": {f"{main}>{early}": slow, f"{early}>{main}": slow},
            "rules": [],
        },
        "roles": {"main": main, "early": early},
        "proposals": proposals,
        "partitions": [{"at": 0.0, "heal_at": 0.5, "a": [early], "b": [x for x in names if x != early], "asym": False}],
        "gseed": rng.randrange(1 << 30),
        "end": round(t_main + 40 * d, 6),
        "delivery_cap": 60000,
    }


def gen_stale_accept(rng: random.Random, tier: str) -> dict:
    """Scripted adversary (class "acceptor state must not regress after a value was chosen"):
    5 nodes, three proposals.  a's Accept of a low ballot crawls towards acceptor c on a very slow link and is lost
    towards everybody else; b's higher ballot is promised by a quorum that does NOT contain c but accepted by a quorum
    that does (c accepts without ever having seen that Prepare), so B is chosen; only then the stale low-ballot Accept
    reaches c; a third proposer gets a phase-1 quorum that meets the choosing quorum in c alone.
    Roles, timing, jitter and the inessential messages are drawn at random; automatic retries are far away."""
    names = [f"n{i}" for i in range(5)]
    a, b, c, x, y = rng.sample(names, 5)
    d = rng.choice([0.005, 0.01, 0.02])
    t_a = 0.1
    t_b = round(t_a + rng.uniform(6 * d, 25 * d), 6)
    stale_delay = round((t_b - t_a) + rng.uniform(10 * d, 40 * d), 6)  # a->c Accept arrives after c accepted B
    t_e = round(t_a + stale_delay + rng.uniform(6 * d, 25 * d), 6)
    third = rng.choice([y, y, a])  # the third proposal comes from a node outside the choosing quorum {b, c, x}
    rules = []

    def rule(src, dst, typ, nth=0, **kw):
        rules.append({"src": src, "dst": dst, "type": typ, "nth": nth, "delay": kw.get("delay"), "drop": kw.get("drop", False)})

    # a: low ballot; its Accept reaches only c, and very late
    if rng.random() < 0.5:
        rule(a, c, "PaxosPrepare", drop=True)  # c may or may not have promised a's ballot
    for z in (b, x, y):
        rule(a, z, "PaxosAccept", drop=True)
    rule(a, c, "PaxosAccept", delay=stale_delay)
    # b: promised by {b, x, y} (+ a sometimes), accepted by {b, c, x}; a and y must not learn or accept B
    rule(b, c, "PaxosPrepare", drop=True)
    if rng.random() < 0.5:
        rule(b, a, "PaxosPrepare", drop=True)
    rule(b, a, "PaxosAccept", drop=True)
    rule(b, y, "PaxosAccept", drop=True)
    for z in (a, y):
        rule(b, z, "PaxosDecided", drop=True)
    # third proposer: phase-1 quorum = {third, the other outsider, c}
    nth = 1 if third == a else 0
    rule(third, b, "PaxosPrepare", nth=nth, drop=True)
    rule(third, x, "PaxosPrepare", nth=nth, drop=True)
    # noise that does not touch the skeleton: Nacks may be lost or slow
    for _ in range(rng.randrange(0, 3)):
        rules.append({"src": rng.choice(names), "dst": rng.choice(names), "type": "PaxosNack", "nth": None,
                      "delay": rng.choice([None, 10 * d]), "drop": rng.random() < 0.5})
    return {
        "mode": "chaos",
        "variant": "stale-accept-after-choice",
        "n": 5,
        "retry_delay": 50.0,
        "script": {"seed": rng.randrange(1 << 30), "family": "uniform", "base": [round(d / 2, 6), d], "loss": 0.0, "rules": rules},
        "roles": {"low": a, "high": b, "acceptor": c, "chooser": x, "outsider": y, "third": third},
        "proposals": [
            {"node": a, "value": rng.choice(["vA", "vA", 0, ""]), "at": t_a},
            {"node": b, "value": "vB", "at": t_b},
            {"node": third, "value": "vE", "at": t_e},
        ],
        "partitions": [],
        "gseed": rng.randrange(1 << 30),
        "end": round(t_e + 40 * d, 6),
    }


class SingleMonitor:
    """Samples is_decided / decided_value of every node after every delivered event."""

    def __init__(self, res: Result, nodes, net):
        self.res = res
        self.nodes = nodes
        self.net = net
        self.node_set = {id(n): n for n in nodes}
        self.proposed: list = []  # values proposed so far (list: values may be unhashable / falsy; membership by ==)
        self.futures: list = []  # (node, value, future, [reported?])
        self.first: dict = {}  # node name -> (time, value)
        self.decided_global = None  # (time, node, value)
        self.accept_values: dict = {}  # (num, node) -> [values]
        self.abandoned: dict = {}  # node -> set(ballot numbers retried away from)
        self.accept_on_abandoned: list = []
        self.abandoned_values: list = []  # values carried by Accepts of abandoned ballots
        self.max_promised: dict = {}  # node -> highest ballot it is known (from the wire) to have promised / accepted
        self.self_accept_possible: dict = {}  # (num, node) -> bool, at a phase-2 start of that ballot
        self.accepted_from: dict = {}  # (decider, ballot number) -> [sources of delivered PaxosAccepted]
        self.last_accepted_sent: dict = {}  # acceptor -> highest ballot of its Accepted replies so far
        self.late_accepted: dict = {}  # node -> Accepted deliveries whose ballot the node had already abandoned by a retry
        self.stale_accepts = 0  # Accept deliveries whose ballot is below the receiver's highest Accepted reply so far
        self.accepted_regressions: list = []  # (t, acceptor, earlier ballot, later lower ballot): precursor, never a verdict
        self.accept_dests: dict = {}  # (num, node) -> [destinations of its Accept messages]
        self.trigger: dict = {}  # node -> (event type, ballot_number)
        self.trace: list = []
        self.flagged: set = set()
        self.promise_overlap = False
        self.open_phase1: dict = {}  # node -> time of last phase-1 start (until it sends an Accept / decides)
        self.n_retries = 0
        self.n_samples = 0

    # -- wire / delivery tap ------------------------------------------------
    def on_event(self, ev):
        if isinstance(ev, ProcessContinuation):
            self.sample(ev)
            return
        tgt = ev.target
        et = ev.event_type
        if tgt is self.net:
            md = ev.context.get("metadata", {})
            if et == "PaxosAccept":
                b = (md.get("ballot_number"), md.get("ballot_node"))
                vals = self.accept_values.setdefault(b, [])
                v = md.get("value")
                if v not in vals:
                    vals.append(v)
                if b[0] in self.abandoned.get(b[1], ()):
                    self.accept_on_abandoned.append(b)
                    self.abandoned_values.append(v)
                self.open_phase1.pop(md.get("source"), None)
                self.accept_dests.setdefault(b, []).append(md.get("destination"))
                mp = self.max_promised.get(b[1])
                if mp is None or mp <= b:
                    self.self_accept_possible[b] = True
                else:
                    self.self_accept_possible.setdefault(b, False)
            if et == "PaxosAccepted":
                b_ = (md.get("ballot_number"), md.get("ballot_node"))
                src_ = md.get("source")
                hi_ = self.last_accepted_sent.get(src_)
                if hi_ is not None and b_ < hi_:
                    self.accepted_regressions.append((round(ev.time.to_seconds(), 6), src_, list(hi_), list(b_)))
                else:
                    self.last_accepted_sent[src_] = b_
            if et in ("PaxosPrepare", "PaxosPromise", "PaxosAccepted"):
                # the sender has promised (at least) this ballot
                b = (md.get("ballot_number"), md.get("ballot_node"))
                src = md.get("source")
                if self.max_promised.get(src) is None or self.max_promised[src] < b:
                    self.max_promised[src] = b
            if et == "PaxosPrepare":
                src = md.get("source")
                if src not in self.open_phase1:
                    if self.open_phase1:
                        self.promise_overlap = True
                    self.open_phase1[src] = ev.time.to_seconds()
            if len(self.trace) < 600:
                self.trace.append(
                    [
                        round(ev.time.to_seconds(), 6),
                        "send",
                        et,
                        md.get("source"),
                        md.get("destination"),
                        md.get("ballot_number"),
                        md.get("ballot_node"),
                        jsonable(md.get("value", md.get("accepted_value"))),
                    ]
                )
        elif id(tgt) in self.node_set:
            md = ev.context.get("metadata", {})
            if et == "PaxosAccept":
                hi_ = self.last_accepted_sent.get(tgt.name)
                if hi_ is not None and (md.get("ballot_number"), md.get("ballot_node")) < hi_:
                    self.stale_accepts += 1
            if et == "PaxosAccepted" and md.get("ballot_number") in self.abandoned.get(tgt.name, ()):
                self.late_accepted[tgt.name] = self.late_accepted.get(tgt.name, 0) + 1
            if et == "PaxosAccepted":
                self.accepted_from.setdefault((tgt.name, md.get("ballot_number")), []).append(md.get("source"))
            if et == "PaxosRetry":
                self.n_retries += 1
                self.abandoned.setdefault(tgt.name, set()).add(md.get("original_ballot"))
            if len(self.trace) < 600:
                self.trace.append(
                    [
                        round(ev.time.to_seconds(), 6),
                        "recv",
                        et,
                        md.get("source"),
                        tgt.name,
                        md.get("ballot_number", md.get("original_ballot")),
                        md.get("ballot_node"),
                        jsonable(md.get("value", md.get("accepted_value"))),
                    ]
                )
        self.sample(ev)

    # -- root-cause label computed from the observed history ---------------
    def origin(self, node_name):
        """(node that decided first-hand, its trigger) following PaxosDecided back."""
        tr = self.trigger.get(node_name)
        seen = set()
        while tr and tr[0] == "PaxosDecided" and tr[2] in self.trigger and tr[2] not in seen:
            seen.add(node_name)
            node_name = tr[2]
            tr = self.trigger[node_name]
        return node_name, tr

    def diagnose(self, values, deciders=()) -> str:
        """Root-cause label of a safety violation, computed from the observed history.

        `values`: the conflicting decided values; `deciders`: names of the nodes that reported them.
        """
        for v, d in zip(values, deciders):
            try:
                known = v in self.proposed
            except TypeError:
                known = False
            if not known:
                return self.diagnose_unproposed(d, v)
        for b, vals in self.accept_values.items():
            if len(vals) >= 2 and any(v in vals for v in values):
                return "one-ballot-carried-two-values"
        quorum = len(self.nodes) // 2 + 1
        for d in deciders:
            o, tr = self.origin(d)
            if not tr or tr[0] != "PaxosAccepted":
                continue
            b = (tr[1], o)
            srcs = self.accepted_from.get((o, tr[1]), [])
            legit = len(set(srcs)) + (1 if self.self_accept_possible.get(b) else 0)
            dests = self.accept_dests.get(b, [])
            if len(srcs) > len(set(srcs)) and len(dests) > len(set(dests)) and legit < quorum:
                return "phase2-resent-duplicate-accepted-counted-as-quorum"
        if self.accepted_regressions:
            # an acceptor replied Accepted for a lower ballot after a higher one (its accepted state went back)
            return "acceptor-accepted-lower-ballot-after-higher"
        return "no-known-precursor"

    def diagnose_unproposed(self, node_name, value) -> str:
        src, tr = self.origin(node_name)
        ab = self.abandoned.get(src, set())
        if value is None and tr and tr[0] == "PaxosAccepted" and tr[1] in ab:
            if (tr[1], src) in self.accept_on_abandoned:
                return "phase2-run-for-ballot-abandoned-by-retry"
            return "accepted-counted-for-ballot-abandoned-by-retry"
        if value is None and tr and tr[0] == "PaxosPromise" and tr[1] in ab:
            return "phase2-run-for-ballot-abandoned-by-retry"
        if value is None and None in self.abandoned_values:
            # the unproposed value entered the acceptors through an Accept of an abandoned ballot
            return "phase2-run-for-ballot-abandoned-by-retry"
        return "no-known-precursor"

    def flag(self, oracle, shape, detail, extra=None):
        k = (oracle, shape)
        if k in self.flagged:
            return
        if oracle in ("apply-prefix", "future-value") and ("agreement", shape) in self.flagged and shape != "no-known-precursor":
            # consequence of a decision conflict already reported in this run under the same label
            return
        self.flagged.add(k)
        self.res.add(oracle, COMP, shape, detail, {"trace": self.trace[-160:], **(extra or {})})

    # -- the oracles ---------------------------------------------------------
    def sample(self, ev):
        self.n_samples += 1
        now = ev.time.to_seconds()
        for n in self.nodes:
            if not n.is_decided:
                if n.name in self.first:
                    self.flag(
                        "stability",
                        "decided-flag-reset",
                        f"{n.name} reported decided={self.first[n.name][1]!r} at {self.first[n.name][0]} and is undecided at {now}",
                    )
                continue
            v = n.decided_value
            f = self.first.get(n.name)
            if f is None:
                self.first[n.name] = (now, v)
                md = ev.context.get("metadata", {}) if isinstance(ev.context, dict) else {}
                self.trigger[n.name] = (ev.event_type, md.get("ballot_number"), md.get("source"))
                self.open_phase1.pop(n.name, None)
                self.res.count("decisions_checked")
                if ev.event_type in ("PaxosAccepted", "PaxosPromise"):
                    # decided first-hand (own Accepted quorum): _decide resolves the proposal future in the same delivery
                    mine_f = [rec for rec in self.futures if rec[0] is n]
                    if mine_f and not any(rec[2].is_resolved for rec in mine_f):
                        self.flag(
                            "future-resolves",
                            "first-hand-decider-without-resolved-future",
                            f"{n.name} decided {v!r} through its own Accepted quorum at t={now} but none of its {len(mine_f)} propose() futures is resolved",
                        )
                try:
                    known = v in self.proposed
                except TypeError:
                    known = False
                if not known:
                    self.flag(
                        "validity",
                        self.diagnose_unproposed(n.name, v),
                        f"{n.name} reports decided value {v!r} at t={now}; proposed so far: {[repr(x) for x in self.proposed]}",
                    )
                g = self.decided_global
                if g is None:
                    self.decided_global = (now, n.name, v)
                elif g[2] != v:
                    self.flag(
                        "agreement",
                        self.diagnose([g[2], v], [g[1], n.name]),
                        f"{g[1]} decided {g[2]!r} at t={g[0]}, {n.name} decided {v!r} at t={now}",
                        {"ballots_with_two_values": [[list(b), jsonable(vs)] for b, vs in self.accept_values.items() if len(vs) > 1]},
                    )
            elif f[1] != v:
                self.flag("stability", "decided-value-changed", f"{n.name} reported {f[1]!r} at t={f[0]} and {v!r} at t={now}")
        for rec in self.futures:
            node, val, fut, done = rec
            if done[0] or not fut.is_resolved:
                continue
            done[0] = True
            self.res.count("futures_checked")
            fv = fut.value
            if not node.is_decided or node.decided_value != fv:
                self.flag(
                    "future-value",
                    "future-differs-from-own-decision",
                    f"propose({val!r}) on {node.name} resolved with {fv!r}; node decided={node.is_decided} value={node.decided_value!r}",
                )
            g = self.decided_global
            if g is not None and g[2] != fv:
                self.flag(
                    "future-value",
                    self.diagnose([g[2], fv], [g[1], node.name]),
                    f"propose({val!r}) on {node.name} resolved with {fv!r} but {g[1]} decided {g[2]!r} at t={g[0]}",
                )


def run_single(case: dict) -> Result:
    res = Result()
    random.seed(case["gseed"])  # PaxosNode draws its retry jitter from the global RNG
    n = case["n"]
    script = DelayScript({**case["script"], "keep_log": False})
    net = new_network()
    nodes = [PaxosNode(name=f"n{i}", network=net, retry_delay=case["retry_delay"]) for i in range(n)]
    mesh(net, nodes, script)
    for nd in nodes:
        nd.set_peers(nodes)
    by_name = {nd.name: nd for nd in nodes}
    sim = Simulation(entities=[net, *nodes], end_time=Instant.from_seconds(case["end"]))
    mon = SingleMonitor(res, nodes, net)

    for p in case["proposals"]:
        node = by_name[p["node"]]

        def do(ev, node=node, p=p):
            if p["value"] not in mon.proposed:
                mon.proposed.append(p["value"])
            fut = node.propose(p["value"])
            mon.futures.append((node, p["value"], fut, [False]))
            return node.start_phase1()

        sim.schedule(at(p["at"], "drv-propose", do))
    schedule_partitions(sim, net, by_name, case.get("partitions", []))
    sim.control.on_event(mon.on_event)
    status = run_sim(sim, res, total_cap=case.get("delivery_cap", 400000))
    res.count("samples", mon.n_samples)
    res.count("retries", mon.n_retries)
    if mon.accepted_regressions:
        res.count("precursor_acceptor_ballot_regressions", len(mon.accepted_regressions))
    if case.get("variant") == "stale-accept-after-choice":
        res.count("scripted_adversary_runs")
    if status != "completed":
        return res

    decided = [nd for nd in nodes if nd.is_decided]
    if decided:
        res.count("runs_with_decision")
    if case["mode"] == "live":
        # bounded liveness: single proposer, loss-free, delays <= max_delay
        res.count("liveness_runs")
        p = case["proposals"][0]
        bound = p["at"] + HOPS_BUDGET * case["max_delay"]
        late = [nd.name for nd in nodes if nd.name not in mon.first or mon.first[nd.name][0] > bound + 1e-9]
        fut = mon.futures[0][2] if mon.futures else None
        if late:
            res.add(
                "bounded-liveness",
                COMP,
                "single-proposer-fault-free",
                f"nodes {late} had not decided {p['value']!r} within {HOPS_BUDGET} message delays ({bound:.4f}s); first={mon.first}",
                {"trace": mon.trace[-120:]},
            )
        elif fut is None or not fut.is_resolved:
            res.add("bounded-liveness", COMP, "future-unresolved-after-decision", "single proposer's future never resolved", None)
        res.nontrivial = len(decided) == n
    elif case.get("variant") == "fast-retry":
        res.count("fast_retry_runs")
        main = case["roles"]["main"]
        ab = mon.abandoned.get(main, set())
        late = sum(1 for (nm, bn), srcs in mon.accepted_from.items() if nm == main and bn in ab for _ in srcs)
        # the schedule really happened: the main proposer retried and Accepted replies for a ballot it had abandoned
        # were delivered to it (counted at the end; late = number of such deliveries)
        late_after = mon.late_accepted.get(main, 0)
        res.nontrivial = late_after >= 1
        if late_after:
            res.count("accepted_delivered_for_abandoned_ballot", late_after)
    elif case.get("variant") == "stale-accept-after-choice":
        first_hand = [nm for nm, tr in mon.trigger.items() if tr[0] == "PaxosAccepted"]
        # the skeleton really happened: a stale lower-ballot Accept reached an acceptor that had already replied Accepted
        # for a higher ballot, and two proposers each gathered their own Accepted quorum
        res.nontrivial = mon.stale_accepts >= 1 and len(first_hand) >= 2
        if mon.stale_accepts:
            res.count("stale_accepts_delivered", mon.stale_accepts)
    else:
        res.nontrivial = mon.promise_overlap and len(case["proposals"]) >= 2
        if mon.promise_overlap:
            res.count("runs_with_overlapping_phase1")
    return res

"""pytest plugin for the C03 second layer: one digest of all engine deliveries per test.

    cd $HS_REPO && PYTHONPATH=/verif:$HS_REPO python -m pytest -p hsverif.c03_pytest_plugin ... 
    (output file in env HSVERIF_C03_OUT)
"""
import hashlib
import json
import os

import pytest

from hsverif.probe import EngineProbe

_probe = None
_out = {}


def pytest_sessionstart(session):
    global _probe
    _probe = EngineProbe(log_deliveries=True, instant_cap=None, total_cap=None, record_emissions=False)
    _probe.install()


@pytest.hookimpl(hookwrapper=True)
def pytest_runtest_call(item):
    n0 = len(_probe.deliveries)
    yield
    deliv = _probe.deliveries[n0:]
    h = hashlib.sha256()
    for d in deliv:
        h.update(f"{d[1]}|{d[2]}|{d[3]}\n".encode())
    _out[item.nodeid] = [len(deliv), h.hexdigest()[:20]]
    del _probe.deliveries[:]


def pytest_sessionfinish(session, exitstatus):
    if _probe is not None:
        _probe.uninstall()
    path = os.environ.get("HSVERIF_C03_OUT")
    if path:
        json.dump(_out, open(path, "w"))
